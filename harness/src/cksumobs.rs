//! `cksum` (C10): descriptor text round trips and corruption of checksummed descriptor strings.
//! The harness prints real descriptors with the library, substitutes characters and records
//! what `descriptor::checksum::verify_checksum` and `Descriptor::from_str` did with each
//! corrupted string. It does not decide anything: strings travel as INPUT_CHARSET codes and
//! are judged by Trace_Cksum.tla with Checksum.tla.

use std::panic::{catch_unwind, AssertUnwindSafe};
use std::str::FromStr;

use miniscript::descriptor::checksum::{self, verify_checksum};
use miniscript::descriptor::{DescriptorPublicKey, DescriptorSecretKey};
use miniscript::Descriptor;
use serde_json::{json, Value};

use crate::descobs;
use crate::uni::{self, Rng, Universe};

/// BIP380 INPUT_CHARSET (transcribed from the BIP, not from the library)
const INPUT_CHARSET: &str =
    "0123456789()[],'/*abcdefgh@:$%{}IJKLMNOPQRSTUVWXYZ&+-.;<=>?!^_|~ijklmnopqrstuvwxyzABCDEFGH`#\"\\ ";

fn code(c: char) -> u32 { INPUT_CHARSET.chars().position(|x| x == c).map(|p| p as u32).unwrap_or(95) }
fn codes(s: &str) -> Vec<u32> { s.chars().map(code).collect() }

fn ms_text(u: &Universe, wrap: &str, k: &[String]) -> String {
    let h = uni::hash_str("sha256", 1);
    let h160 = uni::hash_str("hash160", 2);
    match wrap {
        "ms1" => format!("wsh(andor(pk({}),older(144),and_v(v:pk({}),sha256({}))))", k[0], k[1], h),
        "ms2" => format!("sh(wsh(or_d(pk({}),and_v(v:pkh({}),after(500000001)))))", k[0], k[1]),
        "ms3" => format!("wsh(thresh(2,pk({}),s:pk({}),sln:older(10)))", k[0], k[1]),
        "ms4" => format!("tr({},{{and_v(v:pk({}),hash160({})),{{multi_a(1,{},{}),pk({})}}}})", k[0], k[1], h160, k[1], k[2], k[2]),
        "ms5" => format!("sh(or_i(and_v(v:pkh({}),older(7)),t:or_c(pk({}),v:hash160({}))))", k[0], k[1], h160),
        "ms6" => format!("wsh(or_b(l:after(100),a:and_n(pk({}),pk({}))))", k[0], k[1]),
        // a long descriptor (the property goes up to ~500 characters)
        _ => {
            let _ = u;
            format!(
                "wsh(thresh(3,pk({}),s:pk({}),s:pk({}),sln:older(12960),sln:after(500000001),a:and_n(sha256({}),hash160({}))))",
                k[0], k[1], k[2], h, h160
            )
        }
    }
}

fn text_of(u: &Universe, wrap: &str, k: &[String]) -> String {
    if wrap.starts_with("ms") || wrap == "long" {
        ms_text(u, wrap, k)
    } else {
        descobs::wrap_text(wrap, k)
    }
}

fn lib_accepts(s: &str) -> (bool, bool) {
    let v = verify_checksum(s).is_ok();
    let f = catch_unwind(AssertUnwindSafe(|| Descriptor::<DescriptorPublicKey>::from_str(s).is_ok())).unwrap_or(false);
    (v, f)
}

/// characters offered as replacements: every printable ASCII character plus two outside the charset
fn alphabet() -> Vec<char> {
    let mut v: Vec<char> = (32u8..127).map(|b| b as char).collect();
    v.push('\u{7f}');
    v.push('\u{e9}');
    v
}

fn subst(base: &[char], subs: &[(usize, char)]) -> String {
    let mut v = base.to_vec();
    for (p, c) in subs {
        v[*p] = *c;
    }
    v.into_iter().collect()
}

fn mutant(cls: &str, via: &str, ok: bool, text: &str) -> Value { json!({"cls": cls, "via": via, "lib_ok": ok, "s": codes(text), "text": text}) }

pub fn run_case(u: &Universe, case: &Value) -> Vec<Value> {
    let wrap = case["wrap"].as_str().unwrap();
    let forms: Vec<String> = case["forms"].as_array().unwrap().iter().map(|x| x.as_str().unwrap().to_string()).collect();
    let n_two = case["n_two"].as_u64().unwrap() as usize;
    let n_group = case["n_group"].as_u64().unwrap() as usize;
    let seed = case["seed"].as_u64().unwrap();
    let n = forms.len();
    let mut ev = json!({"id": format!("{}", case["id"]), "ev": "cksum", "wrap": wrap, "forms": forms, "panic": false, "msg": "", "parsed": false,
                        "text": "", "s": [], "rt": {"ok": false, "msg": "", "eq": false, "fix": false, "alt_eq": false, "same_spk": false},
                        "keys": [], "accepted": [], "sample": [], "eng": [], "wp": {"st": "none", "msg": "", "tpl": "", "tpl_rt": false, "back_eq": false, "from_str_eq": false, "rekey_eq": false}, "tried": {"one": 0, "two": 0, "grp3": 0, "grp4": 0}});
    let exprs: Vec<String> = (1..=n).map(|j| descobs::key_text(u, j, &forms[j - 1])).collect();
    let text0 = text_of(u, wrap, &exprs);
    ev["input"] = json!(text0);
    let r = catch_unwind(AssertUnwindSafe(|| -> Result<Value, String> {
        let d = Descriptor::<DescriptorPublicKey>::from_str(&text0).map_err(|e| e.to_string())?;
        let printed = d.to_string();
        let mut o = json!({"parsed": true, "text": printed, "s": codes(&printed)});
        // print / parse
        let mut rt = json!({"ok": false, "msg": "", "eq": false, "fix": false, "alt_eq": false, "same_spk": false});
        match Descriptor::<DescriptorPublicKey>::from_str(&printed) {
            Ok(d2) => {
                rt["ok"] = json!(true);
                rt["eq"] = json!(d2 == d);
                rt["fix"] = json!(d2.to_string() == printed);
                let alt = format!("{:#}", d);
                rt["alt_eq"] = json!(
                    Descriptor::<DescriptorPublicKey>::from_str(&alt).map(|d3| d3 == d).unwrap_or(false)
                        && printed.starts_with(&alt)
                        && printed.len() == alt.len() + 9
                );
                #[allow(deprecated)]
                let spk = |x: &Descriptor<DescriptorPublicKey>| -> Option<Vec<u8>> {
                    let s = x.clone().into_single_descriptors().ok()?;
                    let f = s.into_iter().next()?;
                    let def = if f.has_wildcard() { f.at_derivation_index(3).ok()? } else { f.into_definite().ok()? };
                    Some(def.script_pubkey().to_bytes())
                };
                rt["same_spk"] = json!(spk(&d) == spk(&d2));
            }
            Err(e) => rt["msg"] = json!(e.to_string()),
        }
        o["rt"] = rt;
        // key expressions (public, and the secret counterpart where the form has one)
        let mut keys = vec![];
        for (j, t) in exprs.iter().enumerate() {
            let mut kj = json!({"text": t, "ok": false, "eq": false, "fix": false, "kind": "public"});
            if let Ok(k) = DescriptorPublicKey::from_str(t) {
                kj["ok"] = json!(true);
                let p = k.to_string();
                // fixed point after ONE round trip: the printed form may normalise the written one (h for ')
                kj["fix"] = json!(DescriptorPublicKey::from_str(&p).map(|k2| k2.to_string() == p).unwrap_or(false));
                kj["eq"] = json!(DescriptorPublicKey::from_str(&p).map(|k2| k2 == k).unwrap_or(false));
            }
            keys.push(kj);
            if let Some(st) = descobs::secret_key_text(u, j + 1, &forms[j]) {
                let mut sj = json!({"text": "secret key expression", "ok": false, "eq": false, "fix": false, "kind": "secret"});
                if let Ok(k) = DescriptorSecretKey::from_str(&st) {
                    sj["ok"] = json!(true);
                    let p = k.to_string();
                    sj["fix"] = json!(DescriptorSecretKey::from_str(&p).map(|k2| k2.to_string() == p).unwrap_or(false));
                    // DescriptorSecretKey has no Eq: compare through the printed form and the public key
                    let again = DescriptorSecretKey::from_str(&p).ok();
                    let same_pub = match (&again, k.to_public(&u.secp)) {
                        (Some(a), Ok(pk)) => a.to_string() == p && a.to_public(&u.secp).map(|x| x == pk).unwrap_or(false),
                        // hardened steps after the xprv cannot be made public; printed form must still agree
                        (Some(a), Err(_)) => a.to_string() == p,
                        _ => false,
                    };
                    sj["eq"] = json!(same_pub);
                }
                keys.push(sj);
            }
        }
        o["keys"] = json!(keys);
        // wallet policy (BIP388): descriptor -> template + key vector -> descriptor
        let wp = catch_unwind(AssertUnwindSafe(|| -> Value {
            use miniscript::descriptor::WalletPolicy;
            match WalletPolicy::from_descriptor(&d) {
                Err(e) => json!({"st": "err", "msg": e.to_string(), "tpl": "", "tpl_rt": false, "back_eq": false, "from_str_eq": false, "rekey_eq": false}),
                Ok(w) => {
                    let tpl = w.to_string();
                    // the template text parses back to a policy that prints the same template
                    let t2 = WalletPolicy::from_str(&tpl);
                    let tpl_rt = t2.as_ref().map(|x| x.to_string() == tpl).unwrap_or(false);
                    // template + the descriptor's own keys gives back the descriptor
                    let back_eq = w.clone().into_descriptor().map(|x| x == d).unwrap_or(false);
                    // the descriptor string parses to the same wallet policy
                    let from_str_eq = WalletPolicy::from_str(&printed).map(|x| x == w).unwrap_or(false);
                    // a policy parsed from the bare template, given the key vector, yields the descriptor too
                    let mut keys: Vec<DescriptorPublicKey> = vec![];
                    for k in d.iter_pk() {
                        if !keys.contains(&k) {
                            keys.push(k);
                        }
                    }
                    let rekey_eq = match t2 {
                        Ok(mut t) => t.set_key_info(&keys).is_ok() && t.into_descriptor().map(|x| x == d).unwrap_or(false),
                        Err(_) => false,
                    };
                    json!({"st": "ok", "msg": "", "tpl": tpl, "tpl_rt": tpl_rt, "back_eq": back_eq, "from_str_eq": from_str_eq, "rekey_eq": rekey_eq})
                }
            }
        }));
        o["wp"] = wp.unwrap_or(json!({"st": "panic", "msg": "PANIC", "tpl": "", "tpl_rt": false, "back_eq": false, "from_str_eq": false, "rekey_eq": false}));
        // corruption
        let base: Vec<char> = printed.chars().collect();
        let len = base.len();
        let alpha = alphabet();
        let mut rng = Rng(seed ^ (case["id"].as_u64().unwrap_or(0) << 8));
        let mut accepted = vec![];
        let mut sample = vec![];
        let mut tried = [0usize; 4];
        let mut note = |cls: &str, text: String, keep: bool, accepted: &mut Vec<Value>, sample: &mut Vec<Value>, full: bool| {
            let v = verify_checksum(&text).is_ok();
            if v || full {
                let (v2, f) = lib_accepts(&text);
                // without a '#' there is no checksum for verify_checksum to look at (its contract is
                // "verify if present"); such strings are judged through Descriptor::from_str only
                if v2 && text.contains('#') && accepted.len() < 24 {
                    accepted.push(mutant(cls, "verify_checksum", true, &text));
                }
                if f && accepted.len() < 24 {
                    accepted.push(mutant(cls, "from_str", true, &text));
                }
                if keep && !(v2 && text.contains('#')) && !f {
                    sample.push(mutant(cls, "both", false, &text));
                }
            } else if keep {
                sample.push(mutant(cls, "verify_checksum", false, &text));
            }
        };
        // one: exhaustive
        let hash_pos = base.iter().position(|c| *c == '#').unwrap_or(len);
        for p in 0..len {
            for c in alpha.iter() {
                if *c == base[p] {
                    continue;
                }
                tried[0] += 1;
                // every 97th mutant and every mutant of the '#' also goes through from_str
                let full = p == hash_pos || tried[0] % 97 == 0;
                let keep = tried[0] % (1 + (len * alpha.len()) / 3) == 7;
                note("one", subst(&base, &[(p, *c)]), keep, &mut accepted, &mut sample, full);
            }
        }
        // two: sampled pairs; structured choices first (both in the checksum, adjacent, payload + checksum)
        for q in 0..n_two {
            let (p1, p2) = match q % 4 {
                0 => (hash_pos + 1 + rng.below(8), hash_pos + 1 + rng.below(8)),
                1 => {
                    let a = rng.below(len - 1);
                    (a, a + 1)
                }
                2 => (rng.below(hash_pos.max(1)), hash_pos + 1 + rng.below(8)),
                _ => (rng.below(len), rng.below(len)),
            };
            if p1 == p2 || p1 >= len || p2 >= len {
                continue;
            }
            // replacements mostly from the plausible set: same case-folded letter, neighbouring digit, any char
            let pick = |rng: &mut Rng, orig: char| -> char {
                match rng.below(4) {
                    0 if orig.is_ascii_alphabetic() => {
                        if orig.is_ascii_lowercase() { orig.to_ascii_uppercase() } else { orig.to_ascii_lowercase() }
                    }
                    _ => alpha[rng.below(alpha.len())],
                }
            };
            let c1 = pick(&mut rng, base[p1]);
            let c2 = pick(&mut rng, base[p2]);
            if c1 == base[p1] || c2 == base[p2] {
                continue;
            }
            tried[1] += 1;
            note("two", subst(&base, &[(p1, c1), (p2, c2)]), q % (1 + n_two / 3) == 5, &mut accepted, &mut sample, q % 197 == 0);
        }
        // in-group: 3 and 4 substitutions among positions whose character is in group 0, replaced by group-0 characters
        let g0: Vec<char> = INPUT_CHARSET.chars().take(32).collect();
        let gpos: Vec<usize> = (0..hash_pos).filter(|p| code(base[*p]) < 32).collect();
        if gpos.len() >= 4 {
            for q in 0..n_group {
                let k = 3 + (q % 2);
                let mut ps: Vec<usize> = vec![];
                // half of the samples are clustered (burst), half spread
                if q % 4 < 2 {
                    let start = rng.below(gpos.len() - k + 1);
                    ps.extend_from_slice(&gpos[start..start + k]);
                } else {
                    while ps.len() < k {
                        let p = gpos[rng.below(gpos.len())];
                        if !ps.contains(&p) {
                            ps.push(p);
                        }
                    }
                }
                let subs: Vec<(usize, char)> = ps
                    .iter()
                    .map(|p| {
                        let mut c = g0[rng.below(32)];
                        while c == base[*p] {
                            c = g0[rng.below(32)];
                        }
                        (*p, c)
                    })
                    .collect();
                tried[k - 1] += 1;
                note(if k == 3 { "grp3" } else { "grp4" }, subst(&base, &subs), q % (1 + n_group / 3) == 5, &mut accepted, &mut sample, q % 197 == 0);
            }
        }
        o["tried"] = json!({"one": tried[0], "two": tried[1], "grp3": tried[2], "grp4": tried[3]});
        o["accepted"] = json!(accepted);
        o["sample"] = json!(sample);
        // the engine on corrupted payloads (function-level conformance of the checksum itself)
        let mut eng = vec![];
        let payload: Vec<char> = base[..hash_pos].to_vec();
        for q in 0..4usize {
            let mut p = payload.clone();
            for _ in 0..=q {
                let at = rng.below(p.len());
                p[at] = INPUT_CHARSET.chars().nth(rng.below(95)).unwrap();
            }
            let ps: String = p.into_iter().collect();
            let mut e = checksum::Engine::new();
            if e.input(&ps).is_ok() {
                let sum: String = e.checksum_chars().iter().collect();
                eng.push(json!({"p": codes(&ps), "sum": codes(&sum), "text": format!("{}#{}", ps, sum)}));
            }
        }
        o["eng"] = json!(eng);
        Ok(o)
    }));
    match r {
        Err(_) => {
            ev["panic"] = json!(true);
            ev["msg"] = json!("PANIC");
        }
        Ok(Err(e)) => ev["msg"] = json!(e),
        Ok(Ok(o)) => {
            for (k, v) in o.as_object().unwrap() {
                ev[k] = v.clone();
            }
        }
    }
    vec![ev]
}
