//! `pairs` (C19): the full matrix of ==, cmp, hash, string equality over a list of items.

use std::cmp::Ordering;
use std::collections::hash_map::DefaultHasher;
use std::hash::{Hash, Hasher};
use std::panic::{catch_unwind, AssertUnwindSafe};
use std::str::FromStr;

use miniscript::descriptor::DefiniteDescriptorKey;
use miniscript::{Miniscript, ScriptContext, ValidationParams};
use serde_json::{json, Value};

use crate::uni::{ast_to_abs, ast_to_string, ast_to_sugar, Universe};

fn h<T: Hash>(t: &T) -> u64 {
    let mut s = DefaultHasher::new();
    t.hash(&mut s);
    s.finish()
}

fn matrix<T: Eq + Ord + Hash + Clone + ToString>(case: &Value, objs: Vec<Option<T>>, abs: Vec<String>) -> Vec<Value> {
    let hashes: Vec<u64> = objs.iter().map(|o| o.as_ref().map(h).unwrap_or(0)).collect();
    matrix_h(case, objs, abs, hashes)
}

/// `hashes`: per item; for types without a Hash impl all zero (the clause eq => equal hash is then vacuous)
fn matrix_h<T: Eq + Ord + Clone + ToString>(case: &Value, objs: Vec<Option<T>>, abs: Vec<String>, hashes: Vec<u64>) -> Vec<Value> {
    let items = case["items"].as_array().unwrap();
    let n = items.len();
    let base: Vec<i64> = items.iter().map(|x| x["base"].as_i64().unwrap()).collect();
    let style: Vec<String> = items.iter().map(|x| x["style"].as_str().unwrap_or("x").to_string()).collect();
    let ok: Vec<bool> = objs.iter().map(|o| o.is_some()).collect();
    let strs: Vec<String> = objs.iter().map(|o| o.as_ref().map(|x| x.to_string()).unwrap_or_default()).collect();
    let mut out = vec![];
    let mut scores = vec![];
    let mut score_rows = vec![];
    for r in 0..n {
        let mut ev = json!({"id": format!("{}:{}", case["id"], r + 1), "ev": "eq", "kind": "row", "row": r + 1,
                            "ctx": case["ctx"], "abs": abs[r], "base": base, "style": style, "ok": ok,
                            "parsed": ok[r]});
        if let Some(a) = &objs[r] {
            let mut eq = vec![];
            let mut cmp = vec![];
            let mut cmp_t = vec![];
            let mut hq = vec![];
            let mut sq = vec![];
            let mut below = 0;
            for j in 0..n {
                match &objs[j] {
                    None => {
                        eq.push(false);
                        cmp.push(0);
                        cmp_t.push(0);
                        hq.push(false);
                        sq.push(false);
                    }
                    Some(b) => {
                        let res = catch_unwind(AssertUnwindSafe(|| {
                            (a == b, a.cmp(b), b.cmp(a), hashes[r] == hashes[j], strs[r] == strs[j])
                        }));
                        let (e, c, ct, hh, ss) = res.unwrap_or((false, Ordering::Equal, Ordering::Equal, false, false));
                        let ci = |c: Ordering| match c {
                            Ordering::Less => -1,
                            Ordering::Equal => 0,
                            Ordering::Greater => 1,
                        };
                        eq.push(e);
                        cmp.push(ci(c));
                        cmp_t.push(ci(ct));
                        hq.push(hh);
                        sq.push(ss);
                        if c == Ordering::Greater && style[j] == "x" {
                            below += 1;
                        }
                    }
                }
            }
            ev["eq"] = json!(eq);
            ev["cmp"] = json!(cmp);
            ev["cmpT"] = json!(cmp_t);
            ev["hash"] = json!(hq);
            ev["streq"] = json!(sq);
            ev["clone_eq"] = json!(a.clone() == *a);
            ev["below"] = json!(below);
            if style[r] == "x" {
                scores.push(below);
                score_rows.push(r + 1);
            }
        }
        out.push(ev);
    }
    out.push(json!({"id": format!("{}:summary", case["id"]), "ev": "eq", "kind": "summary", "ctx": case["ctx"],
                    "scores": scores, "rows": score_rows}));
    out
}

fn ms_items<Ctx: ScriptContext>(u: &Universe, case: &Value) -> Vec<Value> {
    let ctx = case["ctx"].as_str().unwrap();
    let mut objs = vec![];
    let mut abs = vec![];
    for it in case["items"].as_array().unwrap() {
        let s = if it["style"].as_str() == Some("s") { ast_to_sugar(u, &it["ast"], ctx) } else { ast_to_string(u, &it["ast"], ctx) };
        abs.push(format!("{}[{}]", ast_to_abs(&it["ast"]), it["style"].as_str().unwrap_or("x")));
        let r = catch_unwind(|| Miniscript::<DefiniteDescriptorKey, Ctx>::from_str_with_validation_params(&s, &ValidationParams::MAX));
        objs.push(match r {
            Ok(Ok(m)) => Some(m),
            _ => None,
        });
    }
    matrix(case, objs, abs)
}

fn parse_guard<T, F: FnOnce() -> Result<T, String> + std::panic::UnwindSafe>(f: F) -> Option<T> {
    match catch_unwind(f) {
        Ok(Ok(x)) => Some(x),
        _ => None,
    }
}

/// semantic policy text: leaves and thresholds only
fn sem_str(u: &Universe, p: &Value) -> String {
    let k = p["p"].as_str().unwrap();
    let n = p["n"].as_i64().unwrap_or(0);
    match k {
        "key" => format!("pk({})", u.key_str(n as usize, "segwitv0")),
        "after" | "older" => format!("{}({})", k, n),
        "thresh" => {
            // the semantic text syntax spells 1-of-n "or" and n-of-n "and"
            let xs = p["xs"].as_array().unwrap();
            let kids = xs.iter().map(|x| sem_str(u, x)).collect::<Vec<_>>().join(",");
            if n == 1 {
                format!("or({})", kids)
            } else if n as usize == xs.len() {
                format!("and({})", kids)
            } else {
                format!("thresh({},{})", n, kids)
            }
        }
        _ => format!("{}({})", k, crate::uni::hash_str(k, n as usize)),
    }
}

/// taproot tree text from leaves + pre-order depth list
fn tree_str(leaves: &[String], depths: &[u64], pos: &mut usize, depth: u64) -> String {
    if depths[*pos] == depth {
        *pos += 1;
        leaves[*pos - 1].clone()
    } else {
        let a = tree_str(leaves, depths, pos, depth + 1);
        let b = tree_str(leaves, depths, pos, depth + 1);
        format!("{{{},{}}}", a, b)
    }
}

fn desc_str(u: &Universe, d: &Value) -> String {
    let wrap = d["wrap"].as_str().unwrap();
    let ik = d["ik"].as_u64().unwrap_or(0) as usize;
    let ctx = match wrap {
        "tr" | "tr_key" => "tap",
        "sh" => "legacy",
        "bare" | "bare_pk" => "bare",
        _ => "segwitv0",
    };
    let asts: Vec<String> = d["asts"].as_array().unwrap().iter().map(|a| ast_to_string(u, a, ctx)).collect();
    match wrap {
        "pkh" => format!("pkh({})", u.key_str(ik, "legacy")),
        "wpkh" => format!("wpkh({})", u.key_str(ik, "segwitv0")),
        "shwpkh" => format!("sh(wpkh({}))", u.key_str(ik, "segwitv0")),
        "bare_pk" => format!("pk({})", u.key_str(ik, "bare")),
        "tr_key" => format!("tr({})", u.key_str(ik, "tap")),
        "bare" => asts[0].clone(),
        "sh" => format!("sh({})", asts[0]),
        "wsh" => format!("wsh({})", asts[0]),
        "shwsh" => format!("sh(wsh({}))", asts[0]),
        "tr" => {
            let depths: Vec<u64> = d["dl"].as_array().unwrap().iter().map(|x| x.as_u64().unwrap()).collect();
            let mut pos = 0;
            format!("tr({},{})", u.key_str(ik, "tap"), tree_str(&asts, &depths, &mut pos, 0))
        }
        _ => panic!("bad wrap"),
    }
}

fn other_items(u: &Universe, case: &Value) -> Vec<Value> {
    use miniscript::policy::{Concrete, Semantic};
    use miniscript::Descriptor;
    let items = case["items"].as_array().unwrap();
    match case["kind"].as_str().unwrap() {
        "conc" => {
            let strs: Vec<String> = items.iter().map(|it| crate::compobs::pol_str(u, &it["pol"], "segwitv0")).collect();
            let objs = strs.iter().map(|s| { let s = s.clone(); parse_guard(move || Concrete::<DefiniteDescriptorKey>::from_str(&s).map_err(|e| e.to_string())) }).collect();
            matrix(case, objs, strs.iter().map(|s| short(s)).collect())
        }
        "sem" => {
            let strs: Vec<String> = items.iter().map(|it| sem_str(u, &it["pol"])).collect();
            let objs: Vec<Option<Semantic<DefiniteDescriptorKey>>> = strs.iter().map(|s| { let s = s.clone(); parse_guard(move || Semantic::<DefiniteDescriptorKey>::from_str(&s).map_err(|e| e.to_string())) }).collect();
            let zeros = vec![0u64; objs.len()];
            matrix_h(case, objs, strs.iter().map(|s| short(s)).collect(), zeros)
        }
        _ => {
            let strs: Vec<String> = items.iter().map(|it| desc_str(u, &it["d"])).collect();
            let objs = strs.iter().map(|s| { let s = s.clone(); parse_guard(move || Descriptor::<DefiniteDescriptorKey>::from_str(&s).map_err(|e| e.to_string())) }).collect();
            matrix(case, objs, strs.iter().map(|s| short(s)).collect())
        }
    }
}

/// readable form: 66/64-hex keys shortened
fn short(s: &str) -> String {
    let mut out = String::new();
    let mut run = String::new();
    for c in s.chars().chain(std::iter::once(' ')) {
        if c.is_ascii_hexdigit() {
            run.push(c);
        } else {
            if run.len() >= 40 {
                out.push_str(&run[..6]);
                out.push_str("..");
            } else {
                out.push_str(&run);
            }
            run.clear();
            out.push(c);
        }
    }
    out.trim_end().to_string()
}

pub fn run_case(u: &Universe, case: &Value) -> Vec<Value> {
    if case.get("kind").and_then(|k| k.as_str()).map(|k| k != "ms").unwrap_or(false) {
        return other_items(u, case);
    }
    match case["ctx"].as_str().unwrap() {
        "bare" => ms_items::<miniscript::BareCtx>(u, case),
        "legacy" => ms_items::<miniscript::Legacy>(u, case),
        "segwitv0" => ms_items::<miniscript::Segwitv0>(u, case),
        "tap" => ms_items::<miniscript::Tap>(u, case),
        _ => panic!("bad ctx"),
    }
}
