//! `pairs` (C19): the full matrix of ==, cmp, hash, string equality over a list of items.

use std::cmp::Ordering;
use std::collections::hash_map::DefaultHasher;
use std::hash::{Hash, Hasher};
use std::panic::{catch_unwind, AssertUnwindSafe};
use std::str::FromStr;

use miniscript::descriptor::DefiniteDescriptorKey;
use miniscript::{Miniscript, ScriptContext, ValidationParams};
use serde_json::{json, Value};

use crate::uni::{ast_to_abs, ast_to_string, ast_to_sugar, Universe};

fn h<T: Hash>(t: &T) -> u64 {
    let mut s = DefaultHasher::new();
    t.hash(&mut s);
    s.finish()
}

fn matrix<T: Eq + Ord + Hash + Clone + ToString>(case: &Value, objs: Vec<Option<T>>, abs: Vec<String>) -> Vec<Value> {
    let items = case["items"].as_array().unwrap();
    let n = items.len();
    let base: Vec<i64> = items.iter().map(|x| x["base"].as_i64().unwrap()).collect();
    let style: Vec<String> = items.iter().map(|x| x["style"].as_str().unwrap_or("x").to_string()).collect();
    let ok: Vec<bool> = objs.iter().map(|o| o.is_some()).collect();
    let strs: Vec<String> = objs.iter().map(|o| o.as_ref().map(|x| x.to_string()).unwrap_or_default()).collect();
    let hashes: Vec<u64> = objs.iter().map(|o| o.as_ref().map(h).unwrap_or(0)).collect();
    let mut out = vec![];
    let mut scores = vec![];
    let mut score_rows = vec![];
    for r in 0..n {
        let mut ev = json!({"id": format!("{}:{}", case["id"], r + 1), "ev": "eq", "kind": "row", "row": r + 1,
                            "ctx": case["ctx"], "abs": abs[r], "base": base, "style": style, "ok": ok,
                            "parsed": ok[r]});
        if let Some(a) = &objs[r] {
            let mut eq = vec![];
            let mut cmp = vec![];
            let mut cmp_t = vec![];
            let mut hq = vec![];
            let mut sq = vec![];
            let mut below = 0;
            for j in 0..n {
                match &objs[j] {
                    None => {
                        eq.push(false);
                        cmp.push(0);
                        cmp_t.push(0);
                        hq.push(false);
                        sq.push(false);
                    }
                    Some(b) => {
                        let res = catch_unwind(AssertUnwindSafe(|| {
                            (a == b, a.cmp(b), b.cmp(a), hashes[r] == hashes[j], strs[r] == strs[j])
                        }));
                        let (e, c, ct, hh, ss) = res.unwrap_or((false, Ordering::Equal, Ordering::Equal, false, false));
                        let ci = |c: Ordering| match c {
                            Ordering::Less => -1,
                            Ordering::Equal => 0,
                            Ordering::Greater => 1,
                        };
                        eq.push(e);
                        cmp.push(ci(c));
                        cmp_t.push(ci(ct));
                        hq.push(hh);
                        sq.push(ss);
                        if c == Ordering::Greater && style[j] == "x" {
                            below += 1;
                        }
                    }
                }
            }
            ev["eq"] = json!(eq);
            ev["cmp"] = json!(cmp);
            ev["cmpT"] = json!(cmp_t);
            ev["hash"] = json!(hq);
            ev["streq"] = json!(sq);
            ev["clone_eq"] = json!(a.clone() == *a);
            ev["below"] = json!(below);
            if style[r] == "x" {
                scores.push(below);
                score_rows.push(r + 1);
            }
        }
        out.push(ev);
    }
    out.push(json!({"id": format!("{}:summary", case["id"]), "ev": "eq", "kind": "summary", "ctx": case["ctx"],
                    "scores": scores, "rows": score_rows}));
    out
}

fn ms_items<Ctx: ScriptContext>(u: &Universe, case: &Value) -> Vec<Value> {
    let ctx = case["ctx"].as_str().unwrap();
    let mut objs = vec![];
    let mut abs = vec![];
    for it in case["items"].as_array().unwrap() {
        let s = if it["style"].as_str() == Some("s") { ast_to_sugar(u, &it["ast"], ctx) } else { ast_to_string(u, &it["ast"], ctx) };
        abs.push(format!("{}[{}]", ast_to_abs(&it["ast"]), it["style"].as_str().unwrap_or("x")));
        let r = catch_unwind(|| Miniscript::<DefiniteDescriptorKey, Ctx>::from_str_with_validation_params(&s, &ValidationParams::MAX));
        objs.push(match r {
            Ok(Ok(m)) => Some(m),
            _ => None,
        });
    }
    matrix(case, objs, abs)
}

pub fn run_case(u: &Universe, case: &Value) -> Vec<Value> {
    match case["ctx"].as_str().unwrap() {
        "bare" => ms_items::<miniscript::BareCtx>(u, case),
        "legacy" => ms_items::<miniscript::Legacy>(u, case),
        "segwitv0" => ms_items::<miniscript::Segwitv0>(u, case),
        "tap" => ms_items::<miniscript::Tap>(u, case),
        _ => panic!("bad ctx"),
    }
}
