//! `plan` (C17): plans built from real `Assets` versus the satisfier with the same assets;
//! completion of the plan; necessity / sufficiency of the reported time locks.

use std::cell::RefCell;
use std::collections::BTreeMap;
use std::panic::{catch_unwind, AssertUnwindSafe};
use std::str::FromStr;

use bitcoin::hashes::Hash;
use bitcoin::{absolute, relative, Amount, ScriptBuf, Sequence, TxOut};
use miniscript::descriptor::{DescriptorPublicKey, ShInner};
use miniscript::plan::Assets;
use miniscript::{hash256, Descriptor};
use serde_json::{json, Value};

use crate::alpha::SigScope;
use crate::input::abstract_input;
use crate::sat::{wrap_str, Desc, INTERNAL_KEY};
use crate::uni::{ast_to_abs, ast_to_string, hash_bytes, preimage, Universe};
use crate::world::{csv_ok, World, WorldSat, PREV_VALUE};

fn scope(d: &Desc, value: Amount) -> SigScope {
    match d {
        Descriptor::Tr(_) => SigScope::None,
        Descriptor::Wsh(_) | Descriptor::Wpkh(_) => SigScope::SegwitV0 { script_code: d.script_code().unwrap(), value },
        Descriptor::Sh(sh) => match sh.as_inner() {
            ShInner::Ms(_) => SigScope::Legacy { script_code: d.script_code().unwrap() },
            _ => SigScope::SegwitV0 { script_code: d.script_code().unwrap(), value },
        },
        _ => SigScope::Legacy { script_code: d.script_code().unwrap() },
    }
}

pub fn assets_of(u: &Universe, w: &World, ctx: &str) -> Assets {
    let mut a = Assets::new();
    for k in &w.sigs {
        let pk = DescriptorPublicKey::from_str(&u.key_str(*k, ctx)).unwrap();
        a = a.add(pk);
    }
    for (kind, id) in &w.pre {
        let d = hash_bytes(kind, &preimage(kind, *id));
        a = match kind.as_str() {
            "sha256" => a.add(bitcoin::hashes::sha256::Hash::from_slice(&d).unwrap()),
            "hash256" => a.add(hash256::Hash::from_slice(&d).unwrap()),
            "ripemd160" => a.add(bitcoin::hashes::ripemd160::Hash::from_slice(&d).unwrap()),
            _ => a.add(bitcoin::hashes::hash160::Hash::from_slice(&d).unwrap()),
        };
    }
    // the time locks the transaction of this world can honour
    if w.seq != 0xffff_ffff {
        a = a.after(absolute::LockTime::from_consensus(w.lock));
    }
    if w.ver >= 2 && (w.seq & (1 << 31)) == 0 {
        if let Some(r) = Sequence(w.seq).to_relative_lock_time() {
            a = a.older(r);
        }
    }
    a
}

/// tx environment variants around the locks a plan reports
fn variants(abs: Option<u32>, rel: Option<u32>) -> Vec<(String, World)> {
    let base_seq: u32 = match rel {
        Some(r) => r,
        None => {
            if abs.is_some() {
                0xffff_fffe
            } else {
                0xffff_ffff
            }
        }
    };
    let mk = |lock: u32, seq: u32, ver: i32| World {
        sigs: Default::default(), pre: Default::default(), lock, seq, ver, ik: false, json: Value::Null,
    };
    let lock0 = abs.unwrap_or(0);
    let mut out = vec![("exact".to_string(), mk(lock0, base_seq, 2))];
    if let Some(a) = abs {
        if a > 0 {
            out.push(("abs_minus_1".to_string(), mk(a - 1, base_seq, 2)));
        }
        let other = if a < 500_000_000 { 500_000_000 + 1_000_000 } else { 499_999_999 };
        out.push(("abs_other_unit".to_string(), mk(other, base_seq, 2)));
        if rel.is_none() {
            out.push(("abs_final_sequence".to_string(), mk(a, 0xffff_ffff, 2)));
        }
    }
    if let Some(r) = rel {
        let v = r & 0xffff;
        if v > 0 {
            out.push(("rel_minus_1".to_string(), mk(lock0, (r & !0xffff) | (v - 1), 2)));
        }
        out.push(("rel_other_unit".to_string(), mk(lock0, r ^ (1 << 22), 2)));
        out.push(("rel_disabled".to_string(), mk(lock0, r | (1 << 31), 2)));
        out.push(("rel_version_1".to_string(), mk(lock0, r, 1)));
    }
    out
}

fn world_json(base: &Value, w: &World) -> Value {
    let mut j = base.clone();
    j["env"]["lock"] = json!(w.lock);
    j["env"]["ver"] = json!(w.ver);
    j["env"]["seq"] = json!({"final": w.seq == 0xffff_ffff, "dis": w.seq & (1 << 31) != 0,
                             "time": w.seq & (1 << 22) != 0, "v": w.seq & 0xffff});
    j
}

pub fn run_case(u: &Universe, case: &Value) -> Vec<Value> {
    let ctx = case["ctx"].as_str().unwrap();
    let ast = &case["ast"];
    let ms_str = ast_to_string(u, ast, ctx);
    let worlds: Vec<World> = case["worlds"].as_array().unwrap().iter().map(World::from_json).collect();
    let mut evs = vec![];
    for wrap in case["wraps"].as_array().unwrap() {
        let wrap = wrap.as_str().unwrap();
        let ds = crate::sat::desc_text(u, wrap, ast, ctx);
        let _ = &ms_str;
        let d = match catch_unwind(|| Desc::from_str(&ds)) {
            Ok(Ok(d)) => d,
            _ => continue,
        };
        let st = crate::sat::desc_static(u, &d);
        let mut ev = json!({"id": format!("{}:{}", case["id"], wrap), "ev": "plan", "ctx": ctx, "wrap": wrap, "ast": ast,
                            "abs": ast_to_abs(ast), "script": st["script"], "sane": st["ms"]["sane"]});
        let mut res = vec![];
        for w in &worlds {
            let tx = w.tx();
            let prevout = TxOut { value: Amount::from_sat(PREV_VALUE), script_pubkey: d.script_pubkey() };
            let sat = WorldSat { u, w, tx: &tx, prevout: &prevout, ecdsa_scope: scope(&d, prevout.value),
                                 internal_key: Some(INTERNAL_KEY), cache: RefCell::new(BTreeMap::new()) };
            // keys are offered in the form in which the descriptor writes them
            let assets = assets_of(u, w, if wrap == "tr33" { "tap33" } else { ctx });
            for mode in ["nonmall", "mall"] {
                let mut r = json!({"w": w.json, "mode": mode});
                let out = catch_unwind(AssertUnwindSafe(|| {
                    let plan = if mode == "nonmall" { d.clone().plan(&assets) } else { d.clone().plan_mall(&assets) };
                    let direct = if mode == "nonmall" { d.get_satisfaction(&sat) } else { d.get_satisfaction_mall(&sat) };
                    (plan, direct)
                }));
                let (plan, direct) = match out {
                    Err(_) => {
                        r["r"] = json!("panic");
                        res.push(r);
                        continue;
                    }
                    Ok(x) => x,
                };
                r["r"] = json!("ok");
                r["plan_exists"] = json!(plan.is_ok());
                r["sat_exists"] = json!(direct.is_ok());
                r["runs"] = json!([]);
                r["same_bytes"] = json!(true);
                r["completes"] = json!(true);
                r["abs"] = json!(-1);
                r["rel"] = json!(-1);
                if let Ok(plan) = plan {
                    let abs = plan.absolute_timelock.map(|l| l.to_consensus_u32());
                    let rel = plan.relative_timelock.map(|l| l.to_consensus_u32());
                    r["abs"] = json!(abs.map(|x| x as i64).unwrap_or(-1));
                    r["rel"] = json!(rel.map(|x| x as i64).unwrap_or(-1));
                    // completion with the same satisfier as the direct route
                    let comp = catch_unwind(AssertUnwindSafe(|| plan.satisfy(&sat)));
                    match (&comp, &direct) {
                        (Ok(Ok((w1, s1))), Ok((w2, s2))) => {
                            // ECDSA signing is deterministic (RFC6979), so equal choices give equal bytes
                            r["same_bytes"] = json!(w1 == w2 && s1 == s2);
                        }
                        (Ok(Ok(_)), Err(_)) => {}
                        (Ok(Err(_)), _) => r["completes"] = json!(false),
                        (Err(_), _) => r["completes"] = json!("panic"),
                    }
                    // necessity / sufficiency of the reported locks
                    let mut runs = vec![];
                    for (name, mut vw) in variants(abs, rel) {
                        vw.sigs = w.sigs.clone();
                        vw.pre = w.pre.clone();
                        let vtx = vw.tx();
                        let vsat = WorldSat { u, w: &vw, tx: &vtx, prevout: &prevout, ecdsa_scope: scope(&d, prevout.value),
                                              internal_key: Some(INTERNAL_KEY), cache: RefCell::new(BTreeMap::new()) };
                        let c = catch_unwind(AssertUnwindSafe(|| plan.satisfy(&vsat)));
                        match c {
                            Ok(Ok((wit, ssig))) => {
                                let mut inp = abstract_input(u, &vtx, &prevout, &ssig, &wit);
                                inp["script_same"] = json!(false);
                                if inp["script"] == st["script"] {
                                    inp["script"] = json!([]);
                                    inp["script_same"] = json!(true);
                                }
                                runs.push(json!({"variant": name, "w": world_json(&w.json, &vw), "done": true, "inp": inp}));
                            }
                            _ => runs.push(json!({"variant": name, "w": world_json(&w.json, &vw), "done": false,
                                                  "inp": {"kind": "malformed", "script": [], "script_same": false, "stack": [], "facts": {}, "script_len": 0, "rules": "legacy"}})),
                        }
                    }
                    r["runs"] = json!(runs);
                }
                res.push(r);
            }
        }
        ev["res"] = json!(res);
        evs.push(ev);
    }
    evs
}

#[allow(dead_code)]
fn _unused(_: relative::LockTime, _: ScriptBuf) { let _ = csv_ok; }
