//! `poltext` (C10, C20): text round trips, key translation and key iteration of concrete and
//! semantic policies (same abstract policies as the compiler pipeline). Facts only; judged by
//! Trace_PolText.tla.

use std::panic::{catch_unwind, AssertUnwindSafe};
use std::str::FromStr;

use bitcoin::hashes::Hash;
use miniscript::descriptor::DefiniteDescriptorKey;
use miniscript::policy::{Concrete, Liftable, Semantic};
use miniscript::ForEachKey;
use serde_json::{json, Value};

use crate::astobs::{hash_id, key_id};
use crate::compobs::pol_str;
use crate::transobs::MapT;
use crate::uni::Universe;

type Pk = DefiniteDescriptorKey;

fn node(p: &str, n: i64, xs: Vec<Value>, w: Vec<Value>) -> Value { json!({"p": p, "n": n, "xs": xs, "w": w}) }

/// alpha of a library concrete policy back into the abstract policy vocabulary
pub fn conc_json(u: &Universe, p: &Concrete<Pk>) -> Value {
    match p {
        Concrete::Unsatisfiable => node("unsatisfiable", 0, vec![], vec![]),
        Concrete::Trivial => node("trivial", 0, vec![], vec![]),
        Concrete::Key(pk) => node("key", key_id(u, pk), vec![], vec![]),
        Concrete::After(t) => node("after", t.to_consensus_u32() as i64, vec![], vec![]),
        Concrete::Older(t) => node("older", t.to_consensus_u32() as i64, vec![], vec![]),
        Concrete::Sha256(h) => node("sha256", hash_id("sha256", h.as_byte_array()), vec![], vec![]),
        Concrete::Hash256(h) => node("hash256", hash_id("hash256", h.as_byte_array()), vec![], vec![]),
        Concrete::Ripemd160(h) => node("ripemd160", hash_id("ripemd160", h.as_byte_array()), vec![], vec![]),
        Concrete::Hash160(h) => node("hash160", hash_id("hash160", h.as_byte_array()), vec![], vec![]),
        Concrete::And(xs) => node("and", 0, xs.iter().map(|x| conc_json(u, x)).collect(), vec![]),
        Concrete::Or(xs) => node("or", 0, xs.iter().map(|(_, x)| conc_json(u, x)).collect(), xs.iter().map(|(w, _)| json!(w)).collect()),
        Concrete::Thresh(t) => node("thresh", t.k() as i64, t.iter().map(|x| conc_json(u, x)).collect(), vec![]),
    }
}

const BAD: &str = "BAD";
fn bad() -> Value { node(BAD, 0, vec![], vec![]) }

fn maps() -> Vec<(&'static str, Vec<i64>)> {
    vec![
        ("identity", vec![0, 1, 2, 3, 4, 5, 6]),
        ("rename", vec![0, 7, 8, 9, 10, 11, 12]),
        ("shift", vec![0, 2, 3, 4, 5, 6, 1]),
        ("fail_on_2", vec![0, 1, 0, 3, 4, 5, 6]),
    ]
}

pub fn run_case(u: &Universe, case: &Value) -> Vec<Value> {
    let pol = &case["pol"];
    let mut ev = json!({"id": format!("{}", case["id"]), "ev": "poltext", "pol": pol, "panic": false, "parsed": false, "msg": "",
                        "back": bad(), "rt": {"ok": false, "eq": false, "fix": false}, "trs": [], "keys": [], "each": [], "any_first": 0,
                        "sem": {"lifted": false, "ok": false, "eq": false, "fix": false, "tr_id_eq": false, "keys_n": 0}});
    let s = pol_str(u, pol, "segwitv0");
    let r = catch_unwind(AssertUnwindSafe(|| -> Result<Value, String> {
        let p = Concrete::<Pk>::from_str(&s).map_err(|e| e.to_string())?;
        let mut o = json!({"parsed": true, "back": conc_json(u, &p)});
        let printed = p.to_string();
        let mut rt = json!({"ok": false, "eq": false, "fix": false});
        if let Ok(p2) = Concrete::<Pk>::from_str(&printed) {
            rt["ok"] = json!(true);
            rt["eq"] = json!(p2 == p);
            rt["fix"] = json!(p2.to_string() == printed);
        }
        o["rt"] = rt;
        // translation
        let mut trs = vec![];
        for (name, map) in maps() {
            let mut t = MapT { u, map: map.clone(), ctx: "segwitv0".into() };
            let out = catch_unwind(AssertUnwindSafe(|| p.translate_pk(&mut t)));
            trs.push(match out {
                Err(_) => json!({"name": name, "map": map, "st": "panic", "out": bad(), "ident_eq": false}),
                Ok(Err(e)) => json!({"name": name, "map": map, "st": "err", "out": bad(), "ident_eq": false, "msg": e}),
                Ok(Ok(q)) => json!({"name": name, "map": map, "st": "ok", "out": conc_json(u, &q), "ident_eq": q == p}),
            });
        }
        o["trs"] = json!(trs);
        // iteration
        o["keys"] = json!(p.keys().iter().map(|k| key_id(u, k)).collect::<Vec<_>>());
        let mut each = vec![];
        p.for_each_key(|k| {
            each.push(key_id(u, k));
            true
        });
        o["each"] = json!(each);
        // semantic policy: lift, print, parse, translate
        let mut sem = json!({"lifted": false, "ok": false, "eq": false, "fix": false, "tr_id_eq": false, "keys_n": 0});
        if let Ok(sp) = p.lift() {
            sem["lifted"] = json!(true);
            let st = sp.to_string();
            if let Ok(sp2) = Semantic::<Pk>::from_str(&st) {
                sem["ok"] = json!(true);
                sem["eq"] = json!(sp2 == sp);
                sem["fix"] = json!(sp2.to_string() == st);
            }
            let mut t = MapT { u, map: vec![0, 1, 2, 3, 4, 5, 6], ctx: "segwitv0".into() };
            sem["tr_id_eq"] = json!(sp.translate_pk(&mut t).map(|x| x == sp).unwrap_or(false));
            let mut n = 0;
            sp.for_each_key(|_| {
                n += 1;
                true
            });
            sem["keys_n"] = json!(n);
        }
        o["sem"] = sem;
        Ok(o)
    }));
    match r {
        Err(_) => {
            ev["panic"] = json!(true);
            ev["msg"] = json!("PANIC");
        }
        Ok(Err(e)) => ev["msg"] = json!(e),
        Ok(Ok(o)) => {
            for (k, v) in o.as_object().unwrap() {
                ev[k] = v.clone();
            }
        }
    }
    vec![ev]
}
