//! `assets` (C17): which descriptor keys an `Assets` key source can sign for. Facts only.

use std::panic::{catch_unwind, AssertUnwindSafe};
use std::str::FromStr;

use bitcoin::bip32::{ChildNumber, DerivationPath, Fingerprint, Xpriv, Xpub};
use bitcoin::hashes::Hash;
use bitcoin::Network;
use miniscript::plan::{Assets, CanSign};
use miniscript::{DefiniteDescriptorKey, Descriptor};
use serde_json::{json, Value};

use crate::uni::Universe;

fn step(s: i64) -> ChildNumber {
    if s >= 1000 {
        ChildNumber::from_hardened_idx((s - 1000) as u32).unwrap()
    } else {
        ChildNumber::from_normal_idx(s as u32).unwrap()
    }
}

fn path_of(v: &Value) -> Vec<ChildNumber> { v.as_array().unwrap().iter().map(|x| step(x.as_i64().unwrap())).collect() }

fn path_text(p: &[ChildNumber]) -> String { p.iter().map(|c| format!("/{}", c)).collect() }

pub fn run_case(u: &Universe, case: &Value) -> Vec<Value> {
    let apath = path_of(&case["apath"]);
    let kpath = path_of(&case["kpath"]);
    let split = case["split"].as_u64().unwrap() as usize;
    let same_fp = case["same_fp"].as_bool().unwrap();
    let mut ev = json!({"id": format!("{}", case["id"]), "ev": "assets", "apath": case["apath"], "kpath": case["kpath"], "split": split,
                        "same_fp": same_fp, "panic": false, "built": false, "msg": "", "plans": []});
    let r = catch_unwind(AssertUnwindSafe(|| -> Result<Value, String> {
        // master key; the descriptor key is [fp/origin]xpub_at_origin/derivation
        let seed = bitcoin::hashes::sha256::Hash::hash(b"msverif assets master");
        let master = Xpriv::new_master(Network::Bitcoin, seed.as_byte_array()).unwrap();
        let fp: Fingerprint = master.fingerprint(&u.secp);
        let other = bitcoin::hashes::sha256::Hash::hash(b"msverif assets other master");
        let other_fp = Xpriv::new_master(Network::Bitcoin, other.as_byte_array()).unwrap().fingerprint(&u.secp);
        let origin: Vec<ChildNumber> = kpath[..split].to_vec();
        let deriv: Vec<ChildNumber> = kpath[split..].to_vec();
        let at_origin = master.derive_priv(&u.secp, &DerivationPath::from(origin.clone())).map_err(|e| e.to_string())?;
        let xpub = Xpub::from_priv(&u.secp, &at_origin);
        // without an origin the master fingerprint of the key is the xpub's own
        let key_text = if split == 0 {
            format!("[{}]{}{}", fp, xpub, path_text(&deriv))
        } else {
            format!("[{}{}]{}{}", fp, path_text(&origin), xpub, path_text(&deriv))
        };
        let asset_fp = if same_fp { fp } else { other_fp };
        let mut assets = Assets::new();
        assets.keys.insert(((asset_fp, DerivationPath::from(apath.clone())), CanSign::default()));
        // a second key that is always signable (for the multisig)
        let k2 = format!("{}", u.pks[2]);
        let assets2 = assets.clone().add(miniscript::DescriptorPublicKey::from_str(&k2).unwrap());
        let mut plans = vec![];
        for (ds, a) in [
            (format!("wpkh({})", key_text), &assets),
            (format!("pkh({})", key_text), &assets),
            (format!("tr({})", key_text), &assets),
            (format!("wsh(multi(2,{},{}))", key_text, k2), &assets2),
            (format!("tr({},pk({}))", u.xonly[3], key_text), &assets),
        ] {
            let d = Descriptor::<DefiniteDescriptorKey>::from_str(&ds).map_err(|e| format!("{}: {}", ds, e))?;
            let planned = d.clone().plan(a).is_ok();
            let planned_mall = d.plan_mall(a).is_ok();
            plans.push(json!({"desc": ds.split('(').next().unwrap_or(""), "planned": planned, "text": ds}));
            plans.push(json!({"desc": format!("{}/mall", ds.split('(').next().unwrap_or("")), "planned": planned_mall, "text": ds}));
        }
        Ok(json!({"built": true, "plans": plans, "key": key_text}))
    }));
    match r {
        Err(_) => {
            ev["panic"] = json!(true);
            ev["msg"] = json!("PANIC");
        }
        Ok(Err(e)) => ev["msg"] = json!(e),
        Ok(Ok(o)) => {
            for (k, v) in o.as_object().unwrap() {
                ev[k] = v.clone();
            }
        }
    }
    vec![ev]
}
