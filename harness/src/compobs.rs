//! `compile` (C08): the policy compiler on enumerated concrete policies, all targets.

use std::panic::{catch_unwind, AssertUnwindSafe};
use std::str::FromStr;

use miniscript::descriptor::DefiniteDescriptorKey;
use miniscript::policy::concrete::DescriptorCtx;
use miniscript::policy::Concrete;
use miniscript::{Descriptor, Miniscript, ScriptContext};
use serde_json::{json, Value};

use crate::astobs::{key_id, ms_to_ast};
use crate::sat::ty_json;
use crate::uni::{hash_str, Universe};

type Pk = DefiniteDescriptorKey;
pub const UNSPENDABLE: usize = 21;

pub fn pol_str(u: &Universe, p: &Value, ctx: &str) -> String {
    let k = p["p"].as_str().unwrap();
    let n = p["n"].as_i64().unwrap_or(0);
    let xs = p["xs"].as_array().unwrap();
    match k {
        "key" => format!("pk({})", u.key_str(n as usize, ctx)),
        "after" | "older" => format!("{}({})", k, n),
        "sha256" | "hash256" | "ripemd160" | "hash160" => format!("{}({})", k, hash_str(k, n as usize)),
        "and" => format!("and({})", xs.iter().map(|x| pol_str(u, x, ctx)).collect::<Vec<_>>().join(",")),
        "or" => {
            let w = p["w"].as_array().unwrap();
            format!("or({})", xs.iter().zip(w.iter()).map(|(x, w)| format!("{}@{}", w, pol_str(u, x, ctx))).collect::<Vec<_>>().join(","))
        }
        "thresh" => format!("thresh({},{})", n, xs.iter().map(|x| pol_str(u, x, ctx)).collect::<Vec<_>>().join(",")),
        _ => panic!("bad policy node"),
    }
}


/// all key labels occurring in a policy record
fn pol_keys(p: &Value, acc: &mut Vec<usize>) {
    if p["p"] == "key" {
        let k = p["n"].as_u64().unwrap() as usize;
        if !acc.contains(&k) {
            acc.push(k);
        }
    }
    if let Some(xs) = p["xs"].as_array() {
        for x in xs {
            pol_keys(x, acc);
        }
    }
}

fn push_len(n: usize) -> usize {
    if n <= 75 { 1 + n } else if n <= 255 { 2 + n } else { 3 + n }
}

/// Real spends of a compiled output (wide policies only): the library's own satisfier with every
/// key of the policy available, and with each single key withheld in turn; what is measured is
/// the size of the satisfaction as it goes on chain (judged against the context's limits by
/// Trace_Compile).
fn limit_sats(u: &Universe, pol: &Value, d: &Descriptor<Pk>) -> Value {
    let mut keys = vec![];
    pol_keys(pol, &mut keys);
    if keys.len() < 9 {
        return json!([]);
    }
    let rs_len = match d {
        Descriptor::Sh(_) | Descriptor::Wsh(_) => d.explicit_script().map(|s| s.len()).unwrap_or(0),
        _ => 0,
    };
    let mut out = vec![];
    let mut drops: Vec<Option<usize>> = vec![None];
    drops.extend(keys.iter().map(|k| Some(*k)));
    for drop in drops {
        let sigs: Vec<usize> = keys.iter().cloned().filter(|k| Some(*k) != drop).collect();
        let wj = json!({"sigs": sigs, "pre": [["sha256", 1], ["sha256", 2]], "ik": false,
                        "env": {"lock": 0, "ver": 2, "seq": {"final": false, "dis": false, "time": false, "v": 0}}});
        let w = crate::world::World::from_json(&wj);
        let r = crate::sat::one_result(u, d, &w, "nonmall", "desc", None);
        let mut o = json!({"drop": drop.unwrap_or(0), "r": r["r"]});
        if r["r"] == "ok" {
            let wit = r["raw"]["wit"].as_array().map(|a| a.len()).unwrap_or(0);
            let ssig = r["real_ssig_bytes"].as_u64().unwrap_or(0) as usize;
            let (ssig_sat, wit_items) = match d {
                Descriptor::Sh(sh) => match sh.as_inner() {
                    miniscript::descriptor::ShInner::Ms(_) => (ssig.saturating_sub(push_len(rs_len)), 0),
                    _ => (0, wit.saturating_sub(1)),
                },
                Descriptor::Wsh(_) => (0, wit.saturating_sub(1)),
                Descriptor::Bare(_) => (ssig, 0),
                _ => (0, wit),
            };
            o["ssig_sat_bytes"] = json!(ssig_sat);
            o["wit_items"] = json!(wit_items);
        } else {
            o["ssig_sat_bytes"] = json!(0);
            o["wit_items"] = json!(0);
        }
        out.push(o);
    }
    json!(out)
}

/// the output type a bare miniscript compiled for a context is meant for
fn wrap_ms<Ctx: ScriptContext>(u: &Universe, ms: &Miniscript<Pk, Ctx>, ctx: &str) -> Option<Descriptor<Pk>> {
    let text = ms.to_string();
    let ds = match ctx {
        "legacy" => format!("sh({})", text),
        "segwitv0" => format!("wsh({})", text),
        "bare" => text,
        "tap" => format!("tr({},{})", u.key_str(UNSPENDABLE, "tap"), text),
        _ => return None,
    };
    Descriptor::<Pk>::from_str(&ds).ok()
}

fn ms_target<Ctx: ScriptContext>(u: &Universe, pol: &Value, ctx: &str) -> Value {
    let s = pol_str(u, pol, ctx);
    let r = catch_unwind(AssertUnwindSafe(|| -> Result<Value, String> {
        let p = Concrete::<Pk>::from_str(&s).map_err(|e| format!("policy parse: {}", e))?;
        let ms: Miniscript<Pk, Ctx> = p.compile().map_err(|e| e.to_string())?;
        let text = ms.to_string();
        let re = Miniscript::<Pk, Ctx>::from_str(&text);
        let sats = wrap_ms(u, &ms, ctx).map(|d| limit_sats(u, pol, &d)).unwrap_or(json!([]));
        Ok(json!({"st": "ok", "ast": ms_to_ast(u, &ms), "ty": ty_json(&ms), "sane": ms.validate(&Ctx::SANE).is_ok(), "sats": sats,
                  "reparse_sane": re.as_ref().map(|x| *x == ms).unwrap_or(false), "within_limits": ms.within_resource_limits(), "msg": ""}))
    }));
    finish("ms", ctx, r)
}

fn finish(kind: &str, ctx: &str, r: std::thread::Result<Result<Value, String>>) -> Value {
    let mut o = match r {
        Err(_) => json!({"st": "panic", "msg": "PANIC"}),
        Ok(Err(e)) => json!({"st": "err", "msg": e}),
        Ok(Ok(v)) => v,
    };
    o["kind"] = json!(kind);
    o["ctx"] = json!(ctx);
    for (k, v) in [("ast", json!({"f": "0", "n": 0, "ks": [], "xs": []})), ("ty", json!({"b": "", "fl": []})), ("sane", json!(false)),
                   ("reparse_sane", json!(false)), ("within_limits", json!(false)), ("ik", json!(0)), ("leaves", json!([])), ("sats", json!([]))] {
        if o.get(k).is_none() {
            o[k] = v;
        }
    }
    o
}

fn tr_json(u: &Universe, d: &Descriptor<Pk>) -> Result<Value, String> {
    match d {
        Descriptor::Tr(tr) => {
            let leaves: Vec<Value> = tr
                .leaves()
                .map(|l| {
                    let ms = l.miniscript();
                    json!({"depth": l.depth(), "ast": ms_to_ast(u, ms.as_ref()), "ty": ty_json(ms.as_ref()), "sane": ms.validate(&miniscript::Tap::SANE).is_ok()})
                })
                .collect();
            let text = d.to_string();
            let re = Descriptor::<Pk>::from_str(&text);
            Ok(json!({"st": "ok", "ik": key_id(u, tr.internal_key()), "leaves": leaves, "reparse_sane": re.map(|x| x == *d).unwrap_or(false), "msg": ""}))
        }
        _ => Err("not a tr descriptor".into()),
    }
}

fn tr_target(u: &Universe, pol: &Value, which: &str) -> Value {
    let s = pol_str(u, pol, "tap");
    let r = catch_unwind(AssertUnwindSafe(|| -> Result<Value, String> {
        let p = Concrete::<Pk>::from_str(&s).map_err(|e| format!("policy parse: {}", e))?;
        let unspend = Some(Pk::from_str(&u.key_str(UNSPENDABLE, "tap")).unwrap());
        let d = match which {
            "tr" => p.compile_tr(unspend).map_err(|e| e.to_string())?,
            "tr_native_1" => p.compile_tr_native(unspend, 1).map_err(|e| e.to_string())?,
            "tr_native_2" => p.compile_tr_native(unspend, 2).map_err(|e| e.to_string())?,
            "tr_native_8" => p.compile_tr_native(unspend, 8).map_err(|e| e.to_string())?,
            "tr_native_1024" => p.compile_tr_native(unspend, 1024).map_err(|e| e.to_string())?,
            "tr_private" => p.compile_tr_private_experimental(unspend).map_err(|e| e.to_string())?,
            "tr_desc" => p.compile_to_descriptor::<miniscript::Tap>(DescriptorCtx::Tr(unspend)).map_err(|e| e.to_string())?,
            _ => return Err("bad target".into()),
        };
        tr_json(u, &d)
    }));
    finish(which, "tap", r)
}

fn desc_target(u: &Universe, pol: &Value, which: &str) -> Value {
    let ctx = match which {
        "d_bare" => "bare",
        "d_sh" => "legacy",
        _ => "segwitv0",
    };
    let s = pol_str(u, pol, ctx);
    let r = catch_unwind(AssertUnwindSafe(|| -> Result<Value, String> {
        let p = Concrete::<Pk>::from_str(&s).map_err(|e| format!("policy parse: {}", e))?;
        let d = match which {
            "d_bare" => p.compile_to_descriptor::<miniscript::BareCtx>(DescriptorCtx::Bare),
            "d_sh" => p.compile_to_descriptor::<miniscript::Legacy>(DescriptorCtx::Sh),
            "d_wsh" => p.compile_to_descriptor::<miniscript::Segwitv0>(DescriptorCtx::Wsh),
            _ => p.compile_to_descriptor::<miniscript::Segwitv0>(DescriptorCtx::ShWsh),
        }
        .map_err(|e| e.to_string())?;
        let text = d.to_string();
        let re = Descriptor::<Pk>::from_str(&text).map(|x| x == d).unwrap_or(false);
        let (ast, ty, sane) = match &d {
            Descriptor::Bare(b) => (ms_to_ast(u, b.as_inner()), ty_json(b.as_inner()), b.as_inner().validate(&miniscript::BareCtx::SANE).is_ok()),
            Descriptor::Wsh(w) => (ms_to_ast(u, w.as_inner()), ty_json(w.as_inner()), w.as_inner().validate(&miniscript::Segwitv0::SANE).is_ok()),
            Descriptor::Sh(sh) => match sh.as_inner() {
                miniscript::descriptor::ShInner::Ms(m) => (ms_to_ast(u, m), ty_json(m), m.validate(&miniscript::Legacy::SANE).is_ok()),
                miniscript::descriptor::ShInner::Wsh(w) => (ms_to_ast(u, w.as_inner()), ty_json(w.as_inner()), w.as_inner().validate(&miniscript::Segwitv0::SANE).is_ok()),
                _ => return Err("unexpected sh inner".into()),
            },
            _ => return Err("unexpected descriptor".into()),
        };
        let sats = limit_sats(u, pol, &d);
        Ok(json!({"st": "ok", "ast": ast, "ty": ty, "sane": sane, "reparse_sane": re, "within_limits": true, "msg": "", "sats": sats}))
    }));
    finish(which, ctx, r)
}

pub fn run_case(u: &Universe, case: &Value) -> Vec<Value> {
    let pol = &case["pol"];
    let mut outs = vec![
        ms_target::<miniscript::Segwitv0>(u, pol, "segwitv0"),
        ms_target::<miniscript::Tap>(u, pol, "tap"),
        ms_target::<miniscript::Legacy>(u, pol, "legacy"),
        ms_target::<miniscript::BareCtx>(u, pol, "bare"),
    ];
    for w in ["d_bare", "d_sh", "d_wsh", "d_shwsh"] {
        outs.push(desc_target(u, pol, w));
    }
    for w in ["tr", "tr_native_1", "tr_native_2", "tr_native_8", "tr_native_1024", "tr_private", "tr_desc"] {
        outs.push(tr_target(u, pol, w));
    }
    vec![json!({"id": format!("{}", case["id"]), "ev": "compile", "pol": pol, "outs": outs})]
}
