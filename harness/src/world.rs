//! Worlds (what the caller holds + transaction facts) made concrete: a real spending
//! transaction and a `Satisfier` that answers exactly according to the world.

use std::cell::RefCell;
use std::collections::{BTreeMap, BTreeSet};

use bitcoin::absolute::LockTime;
use bitcoin::hashes::Hash;
use bitcoin::secp256k1::Message;
use bitcoin::taproot::TapLeafHash;
use bitcoin::{
    absolute, relative, transaction, Amount, EcdsaSighashType, OutPoint, ScriptBuf, Sequence,
    TapSighashType, Transaction, TxIn, TxOut, Txid, Witness,
};
use miniscript::descriptor::DefiniteDescriptorKey;
use miniscript::{hash256, Satisfier, ToPublicKey};
use serde_json::Value;

use crate::alpha::{ecdsa_msg, schnorr_msg, SigScope, Spend};
use crate::uni::{hash_bytes, preimage, Universe, HASH_KINDS, MAX_HASH_ID, MAX_KEYS};

#[derive(Clone, Debug)]
pub struct World {
    pub sigs: BTreeSet<usize>,
    pub pre: BTreeSet<(String, usize)>,
    pub lock: u32,
    pub seq: u32,
    pub ver: i32,
    pub ik: bool,
    pub json: Value,
}

pub fn seq_from_json(s: &Value) -> u32 {
    if s["final"].as_bool().unwrap_or(false) {
        return 0xffff_ffff;
    }
    let mut v = s["v"].as_u64().unwrap_or(0) as u32 & 0xffff;
    if s["dis"].as_bool().unwrap_or(false) {
        v |= 1 << 31;
    }
    if s["time"].as_bool().unwrap_or(false) {
        v |= 1 << 22;
    }
    v
}

impl World {
    pub fn from_json(w: &Value) -> World {
        let sigs = w["sigs"].as_array().map(|a| a.iter().map(|x| x.as_u64().unwrap() as usize).collect()).unwrap_or_default();
        let pre = w["pre"]
            .as_array()
            .map(|a| {
                a.iter()
                    .map(|x| (x[0].as_str().unwrap().to_string(), x[1].as_u64().unwrap() as usize))
                    .collect()
            })
            .unwrap_or_default();
        let env = &w["env"];
        World {
            sigs,
            pre,
            lock: env["lock"].as_u64().unwrap_or(0) as u32,
            seq: seq_from_json(&env["seq"]),
            ver: env["ver"].as_i64().unwrap_or(2) as i32,
            ik: w["ik"].as_bool().unwrap_or(false),
            json: w.clone(),
        }
    }

    pub fn tx(&self) -> Transaction {
        Transaction {
            version: transaction::Version(self.ver),
            lock_time: LockTime::from_consensus(self.lock),
            input: vec![TxIn {
                previous_output: OutPoint { txid: Txid::from_byte_array([7u8; 32]), vout: 1 },
                script_sig: ScriptBuf::new(),
                sequence: Sequence(self.seq),
                witness: Witness::new(),
            }],
            output: vec![TxOut {
                value: Amount::from_sat(90_000),
                script_pubkey: ScriptBuf::from_bytes(vec![0x51]),
            }],
        }
    }
}

pub const PREV_VALUE: u64 = 100_000;

/// consensus rule for OP_CLTV against a transaction
pub fn cltv_ok(n: u32, lock: u32, seq: u32) -> bool {
    ((n < 500_000_000) == (lock < 500_000_000)) && n <= lock && seq != 0xffff_ffff
}
/// consensus rule for OP_CSV against a transaction
pub fn csv_ok(n: u32, seq: u32, ver: i32) -> bool {
    if n & (1 << 31) != 0 {
        return true;
    }
    ver >= 2 && (seq & (1 << 31)) == 0 && ((n & (1 << 22)) == (seq & (1 << 22))) && (n & 0xffff) <= (seq & 0xffff)
}

/// The satisfier presented to the library: answers from the world, signs on demand with the
/// universe's secret keys over the real sighash.
pub struct WorldSat<'a> {
    pub u: &'a Universe,
    pub w: &'a World,
    pub tx: &'a Transaction,
    pub prevout: &'a TxOut,
    /// scope used for ECDSA signatures (legacy / segwit v0 script code)
    pub ecdsa_scope: SigScope,
    pub internal_key: Option<usize>,
    pub cache: RefCell<BTreeMap<(usize, Vec<u8>), Vec<u8>>>,
}

impl<'a> WorldSat<'a> {
    pub fn key_id(&self, pk: &DefiniteDescriptorKey) -> Option<usize> {
        let p = pk.to_public_key();
        if miniscript::MiniscriptKey::is_x_only_key(pk) {
            let x = pk.to_x_only_pubkey();
            return (1..=MAX_KEYS).find(|&k| self.u.xonly[k] == x);
        }
        (1..=MAX_KEYS).find(|&k| self.u.pks[k] == p.inner)
    }

    pub fn ecdsa(&self, k: usize) -> Option<bitcoin::ecdsa::Signature> {
        let sp = Spend::single(self.tx, self.prevout);
        let msg = ecdsa_msg(&sp, &self.ecdsa_scope, EcdsaSighashType::All)?;
        let sig = self.u.secp.sign_ecdsa(&msg, &self.u.sks[k]);
        Some(bitcoin::ecdsa::Signature { signature: sig, sighash_type: EcdsaSighashType::All })
    }

    pub fn schnorr_leaf(&self, k: usize, lh: &TapLeafHash) -> Option<bitcoin::taproot::Signature> {
        let sp = Spend::single(self.tx, self.prevout);
        let msg = schnorr_msg(&sp, &SigScope::TapLeaf { leaf_hash: *lh }, TapSighashType::Default)?;
        let sig = self.u.secp.sign_schnorr_no_aux_rand(&msg, &self.u.keypairs[k]);
        Some(bitcoin::taproot::Signature { signature: sig, sighash_type: TapSighashType::Default })
    }

    fn pre_for(&self, kind: &str, digest: &[u8]) -> Option<[u8; 32]> {
        for id in 1..=MAX_HASH_ID {
            if hash_bytes(kind, &preimage(kind, id))[..] == *digest {
                if self.w.pre.contains(&(kind.to_string(), id)) {
                    return Some(preimage(kind, id));
                }
            }
        }
        None
    }
}

pub fn msg_of(m: Message) -> Message { m }

impl<'a> Satisfier<DefiniteDescriptorKey> for WorldSat<'a> {
    fn lookup_ecdsa_sig(&self, pk: &DefiniteDescriptorKey) -> Option<bitcoin::ecdsa::Signature> {
        let k = self.key_id(pk)?;
        if self.w.sigs.contains(&k) {
            self.ecdsa(k)
        } else {
            None
        }
    }

    fn lookup_tap_leaf_script_sig(
        &self,
        pk: &DefiniteDescriptorKey,
        lh: &TapLeafHash,
    ) -> Option<bitcoin::taproot::Signature> {
        let k = self.key_id(pk)?;
        if self.w.sigs.contains(&k) {
            self.schnorr_leaf(k, lh)
        } else {
            None
        }
    }

    fn lookup_tap_key_spend_sig(&self, pk: &DefiniteDescriptorKey) -> Option<bitcoin::taproot::Signature> {
        let k = self.key_id(pk)?;
        if !self.w.ik || Some(k) != self.internal_key {
            return None;
        }
        // key-path: sign with the tweaked key pair; the merkle root is taken from the
        // output key by brute force over "no tree" / given prevout is not possible here, so the
        // caller installs the tweaked signature through `cache` under key (k, b"keyspend").
        self.cache
            .borrow()
            .get(&(k, b"keyspend".to_vec()))
            .and_then(|b| bitcoin::taproot::Signature::from_slice(b).ok())
    }

    fn lookup_sha256(&self, h: &bitcoin::hashes::sha256::Hash) -> Option<[u8; 32]> {
        self.pre_for("sha256", &h.to_byte_array())
    }
    fn lookup_hash256(&self, h: &hash256::Hash) -> Option<[u8; 32]> {
        self.pre_for("hash256", &h.to_byte_array())
    }
    fn lookup_ripemd160(&self, h: &bitcoin::hashes::ripemd160::Hash) -> Option<[u8; 32]> {
        self.pre_for("ripemd160", &h.to_byte_array())
    }
    fn lookup_hash160(&self, h: &bitcoin::hashes::hash160::Hash) -> Option<[u8; 32]> {
        self.pre_for("hash160", &h.to_byte_array())
    }

    fn check_older(&self, n: relative::LockTime) -> bool {
        csv_ok(n.to_consensus_u32(), self.w.seq, self.w.ver)
    }
    fn check_after(&self, n: absolute::LockTime) -> bool {
        cltv_ok(n.to_consensus_u32(), self.w.lock, self.w.seq)
    }
}

#[allow(dead_code)]
pub fn _unused(_: &[&str]) { let _ = HASH_KINDS; }
