//! `tap` (C15): taproot descriptors with a given script tree. Real node hashes are named by
//! the sub-tree they commit to (recomputed with rust-bitcoin, independently of the crate).

use std::collections::BTreeMap;
use std::panic::{catch_unwind, AssertUnwindSafe};
use std::str::FromStr;
use std::sync::Arc;

use bitcoin::key::TapTweak;
use bitcoin::taproot::{LeafVersion, TapLeafHash, TapNodeHash};
use bitcoin::ScriptBuf;
use miniscript::descriptor::{DefiniteDescriptorKey, TapTree, Tr};
use miniscript::{Descriptor, Miniscript, Tap, TranslatePk, Translator};
use serde_json::{json, Value};

use crate::sat::INTERNAL_KEY;
use crate::uni::Universe;

type Pk = DefiniteDescriptorKey;

fn leaf_ms(u: &Universe, k: usize) -> String {
    if k <= 20 {
        format!("pk({})", u.key_str(k, "tap"))
    } else {
        format!("and_v(v:pk({}),older({}))", u.key_str(k % 20 + 1, "tap"), k)
    }
}

fn tree_str(u: &Universe, t: &Value) -> String {
    if t["t"] == "leaf" {
        leaf_ms(u, t["k"].as_u64().unwrap() as usize)
    } else {
        format!("{{{},{}}}", tree_str(u, &t["xs"][0]), tree_str(u, &t["xs"][1]))
    }
}

// ---- canonical commitment terms (same definition as Taproot.tla: Canon / Cmp / TermC)
#[derive(Clone)]
enum T {
    L(u64),
    N(Box<T>, Box<T>),
}
/// tree from a pre-order depth list [{d, k}, ...]
fn of_dl(dl: &[Value], pos: &mut usize, depth: u64) -> T {
    if dl[*pos]["d"].as_u64().unwrap() == depth {
        let k = dl[*pos]["k"].as_u64().unwrap();
        *pos += 1;
        T::L(k)
    } else {
        let a = of_dl(dl, pos, depth + 1);
        let b = of_dl(dl, pos, depth + 1);
        T::N(Box::new(a), Box::new(b))
    }
}
fn tstr(u: &Universe, t: &T) -> String {
    match t {
        T::L(k) => leaf_ms(u, *k as usize),
        T::N(a, b) => format!("{{{},{}}}", tstr(u, a), tstr(u, b)),
    }
}
fn cmp(a: &T, b: &T) -> i32 {
    match (a, b) {
        (T::L(x), T::L(y)) => (x.cmp(y)) as i32,
        (T::L(_), _) => -1,
        (_, T::L(_)) => 1,
        (T::N(a1, a2), T::N(b1, b2)) => {
            let c = cmp(a1, b1);
            if c != 0 { c } else { cmp(a2, b2) }
        }
    }
}
fn canon(t: &T) -> T {
    match t {
        T::L(k) => T::L(*k),
        T::N(a, b) => {
            let (a, b) = (canon(a), canon(b));
            if cmp(&a, &b) <= 0 { T::N(Box::new(a), Box::new(b)) } else { T::N(Box::new(b), Box::new(a)) }
        }
    }
}
fn term(t: &T) -> String {
    match t {
        T::L(k) => format!("L{}", k),
        T::N(a, b) => format!("B({},{})", term(a), term(b)),
    }
}

struct Names {
    by_hash: BTreeMap<TapNodeHash, String>,
    script_to_k: BTreeMap<ScriptBuf, u64>,
}

fn name_tree(u: &Universe, t: &T, names: &mut Names) -> TapNodeHash {
    match t {
        T::L(k) => {
            let ms = Miniscript::<Pk, Tap>::from_str(&leaf_ms(u, *k as usize)).expect("leaf miniscript");
            let script = ms.encode();
            let h = TapNodeHash::from(TapLeafHash::from_script(&script, LeafVersion::TapScript));
            names.script_to_k.insert(script, *k);
            names.by_hash.insert(h, term(&canon(t)));
            h
        }
        T::N(a, b) => {
            let (ha, hb) = (name_tree(u, a, names), name_tree(u, b, names));
            let h = TapNodeHash::from_node_hashes(ha, hb);
            names.by_hash.insert(h, term(&canon(t)));
            h
        }
    }
}

fn leaves_json(tr: &Tr<Pk>, names: &Names) -> Value {
    json!(tr
        .leaves()
        .map(|l| json!({"k": names.script_to_k.get(&l.compute_script()).copied().unwrap_or(0), "depth": l.depth()}))
        .collect::<Vec<_>>())
}

struct Ident;
impl Translator<Pk> for Ident {
    type TargetPk = Pk;
    type Error = ();
    fn pk(&mut self, pk: &Pk) -> Result<Pk, ()> { Ok(pk.clone()) }
    fn sha256(&mut self, h: &<Pk as miniscript::MiniscriptKey>::Sha256) -> Result<<Pk as miniscript::MiniscriptKey>::Sha256, ()> { Ok(*h) }
    fn hash256(&mut self, h: &<Pk as miniscript::MiniscriptKey>::Hash256) -> Result<<Pk as miniscript::MiniscriptKey>::Hash256, ()> { Ok(*h) }
    fn ripemd160(&mut self, h: &<Pk as miniscript::MiniscriptKey>::Ripemd160) -> Result<<Pk as miniscript::MiniscriptKey>::Ripemd160, ()> { Ok(*h) }
    fn hash160(&mut self, h: &<Pk as miniscript::MiniscriptKey>::Hash160) -> Result<<Pk as miniscript::MiniscriptKey>::Hash160, ()> { Ok(*h) }
}

fn build_taptree(u: &Universe, t: &T) -> Result<TapTree<Pk>, String> {
    match t {
        T::L(k) => {
            let ms = Miniscript::<Pk, Tap>::from_str(&leaf_ms(u, *k as usize)).map_err(|e| e.to_string())?;
            Ok(TapTree::leaf(Arc::new(ms)))
        }
        T::N(a, b) => TapTree::combine(build_taptree(u, a)?, build_taptree(u, b)?).map_err(|e| e.to_string()),
    }
}

pub fn run_case(u: &Universe, case: &Value) -> Vec<Value> {
    let dl = case["dl"].as_array().unwrap();
    let mut pos = 0usize;
    let t = of_dl(dl, &mut pos, 0);
    let mut ev = json!({"id": format!("{}", case["id"]), "ev": "tap", "dl": case["dl"], "panic": false, "msg": "", "parsed": false});
    let ik = u.key_str(INTERNAL_KEY, "tap");
    let ds = format!("tr({},{})", ik, tstr(u, &t));
    let r = catch_unwind(AssertUnwindSafe(|| -> Result<Value, String> {
        let d = Descriptor::<Pk>::from_str(&ds).map_err(|e| e.to_string())?;
        let tr = match &d {
            Descriptor::Tr(tr) => tr.clone(),
            _ => return Err("not tr".into()),
        };
        let mut names = Names { by_hash: BTreeMap::new(), script_to_k: BTreeMap::new() };
        let root_hash = name_tree(u, &t, &mut names);
        let mut o = json!({"parsed": true});
        o["leaves"] = leaves_json(&tr, &names);
        // print -> parse
        let s1 = d.to_string();
        match Descriptor::<Pk>::from_str(&s1) {
            Ok(Descriptor::Tr(tr2)) => {
                o["roundtrip_leaves"] = leaves_json(&tr2, &names);
                o["roundtrip_eq"] = json!(Descriptor::Tr(tr2.clone()) == d && tr2.to_string() == tr.to_string());
            }
            _ => {
                o["roundtrip_leaves"] = json!([]);
                o["roundtrip_eq"] = json!(false);
            }
        }
        // translate with the identity
        match tr.translate_pk(&mut Ident) {
            Ok(tr3) => o["translated_leaves"] = leaves_json(&tr3, &names),
            Err(_) => o["translated_leaves"] = json!([]),
        }
        // rebuild with TapTree::leaf / combine
        match build_taptree(u, &t).and_then(|tt| Tr::new(tr.internal_key().clone(), Some(tt)).map_err(|e| e.to_string())) {
            Ok(tr4) => {
                o["combine_leaves"] = leaves_json(&tr4, &names);
                // the object built through the API, formatted and parsed again (C10)
                let d4 = Descriptor::Tr(tr4);
                o["built_print_parse"] = match Descriptor::<Pk>::from_str(&d4.to_string()) {
                    Ok(d5) => json!(if d5 == d4 { "equal" } else { "differs" }),
                    Err(e) => json!(format!("err:{}", e)),
                };
            }
            Err(_) => {
                o["combine_leaves"] = json!([]);
                o["built_print_parse"] = json!("notbuilt");
            }
        }
        // commitment (its own stage: a panic here must not hide what parsing produced)
        let stage2 = catch_unwind(AssertUnwindSafe(|| -> Value {
        let mut o = json!({});
        let si = tr.spend_info();
        let root = si.merkle_root();
        o["root"] = json!(root.and_then(|h| names.by_hash.get(&h).cloned()).unwrap_or_else(|| "UNKNOWN".into()));
        let _ = root_hash;
        let internal = u.xonly[INTERNAL_KEY];
        let (tweaked, parity) = internal.tap_tweak(&u.secp, root);
        o["output_key_ok"] = json!(tweaked == si.output_key() && parity == si.output_key_parity() && si.internal_key() == internal);
        let spk = d.script_pubkey();
        let b = spk.as_bytes();
        o["spk_ok"] = json!(b.len() == 34 && b[0] == 0x51 && b[1] == 0x20 && b[2..] == tweaked.to_inner().serialize()[..]);
        let mut spend = vec![];
        for item in si.leaves() {
            let cb = item.control_block();
            let script = item.script();
            let path: Vec<String> = cb
                .merkle_branch
                .iter()
                .map(|h| names.by_hash.get(h).cloned().unwrap_or_else(|| "UNKNOWN".into()))
                .collect();
            spend.push(json!({
                "k": names.script_to_k.get(&script.to_owned()).copied().unwrap_or(0),
                "depth": item.depth(),
                "path": path,
                "verifies": cb.verify_taproot_commitment(&u.secp, tweaked.to_inner(), script),
                "internal_ok": cb.internal_key == internal && cb.output_key_parity == parity && cb.leaf_version == LeafVersion::TapScript,
            }));
        }
        o["spend"] = json!(spend);
        o
        }));
        match stage2 {
            Ok(o2) => {
                for (k, v) in o2.as_object().unwrap() {
                    o[k] = v.clone();
                }
                o["spend_panic"] = json!(false);
            }
            Err(_) => {
                o["spend_panic"] = json!(true);
                o["root"] = json!("PANIC");
                o["output_key_ok"] = json!(false);
                o["spk_ok"] = json!(false);
                o["spend"] = json!([]);
            }
        }
        Ok(o)
    }));
    match r {
        Err(_) => {
            ev["panic"] = json!(true);
            ev["msg"] = json!("PANIC");
        }
        Ok(Err(e)) => {
            ev["msg"] = json!(e);
        }
        Ok(Ok(o)) => {
            for (k, v) in o.as_object().unwrap() {
                ev[k] = v.clone();
            }
        }
    }
    vec![ev]
}
