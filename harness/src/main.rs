fn main(){println!("ok");}
