//! msverif: conformance harness binding the TLA+ specification to rust-miniscript.
//! Usage: msverif <cmd> <cases.ndjson> <out.ndjson> [args...]
//! The harness contains no oracle: it turns abstract cases into real objects, calls the
//! library, applies alpha and writes what it saw.

#![allow(dead_code, unused_imports)]
mod alpha;
mod assetsobs;
mod astobs;
mod compobs;
mod cksumobs;
mod crashobs;
mod descobs;
mod input;
mod interp;
mod pairs;
mod planobs;
mod polobs;
mod poltext;
mod psbtobs;
mod sat;
mod tapobs;
mod transobs;
mod trsat;
mod types;
mod uni;
mod world;

use std::fs::File;
use std::io::{BufRead, BufReader, BufWriter, Write};

use serde_json::Value;

fn main() {
    // keep panic noise out of stderr; panics are data
    std::panic::set_hook(Box::new(|_| {}));
    let args: Vec<String> = std::env::args().collect();
    if args.len() < 4 && !(args.len() >= 2 && args[1] == "keyorder") {
        eprintln!("usage: msverif <cmd> <cases.ndjson> <out.ndjson> [args]");
        std::process::exit(2);
    }
    let cmd = args[1].as_str();
    let u = uni::Universe::new();
    if cmd == "keyorder" {
        // BIP67 order of the universe's keys: ids sorted by compressed / x-only serialisation
        let mut c: Vec<usize> = (1..=uni::MAX_KEYS).collect();
        c.sort_by_key(|k| u.pks[*k].serialize());
        let mut x: Vec<usize> = (1..=uni::MAX_KEYS).collect();
        x.sort_by_key(|k| u.xonly[*k].serialize());
        println!("{}", serde_json::json!({"c": c, "x": x}));
        return;
    }
    let inp = BufReader::new(File::open(&args[2]).expect("open cases"));
    let mut out = BufWriter::new(File::create(&args[3]).expect("create out"));
    let mut n_in = 0usize;
    let mut n_out = 0usize;
    for line in inp.lines() {
        let line = line.unwrap();
        if line.trim().is_empty() {
            continue;
        }
        let case: Value = {
            use serde::Deserialize;
            let mut de = serde_json::Deserializer::from_str(&line);
            de.disable_recursion_limit();
            Value::deserialize(&mut de).expect("case json")
        };
        n_in += 1;
        let evs: Vec<Value> = match cmd {
            "sat" => sat::run_case(&u, &case, &["desc", "plan"]),
            "ast" => astobs::run_case(&u, &case),
            "types" => types::run_case(&case),
            "pairs" => pairs::run_case(&u, &case),
            "interp" => interp::run_case(&u, &case),
            "plan" => planobs::run_case(&u, &case),
            "policy" => polobs::run_case(&u, &case),
            "psbt" => psbtobs::run_case(&u, &case),
            "tap" => tapobs::run_case(&u, &case),
            "desc" => descobs::run_case(&u, &case),
            "compile" => compobs::run_case(&u, &case),
            "crash" => crashobs::run_case(&u, &case),
            "cksum" => cksumobs::run_case(&u, &case),
            "poltext" => poltext::run_case(&u, &case),
            "trsat" => trsat::run_case(&u, &case),
            "assets" => assetsobs::run_case(&u, &case),
            "translate" => transobs::run_case(&u, &case),
            _ => {
                eprintln!("unknown command {}", cmd);
                std::process::exit(2);
            }
        };
        for e in evs {
            writeln!(out, "{}", serde_json::to_string(&e).unwrap()).unwrap();
            n_out += 1;
        }
    }
    out.flush().unwrap();
    eprintln!("msverif {}: {} cases -> {} events", cmd, n_in, n_out);
}
