//! `ast`: per (context, AST) observations of the parser, type checker, encoder, decoder,
//! lifter and printer. One event per case; judged by Trace_Ast.tla (C04, C05, C07, C10, C12).

use std::panic::{catch_unwind, AssertUnwindSafe};
use std::str::FromStr;
use std::sync::Arc;

use bitcoin::hashes::Hash;
use miniscript::descriptor::DefiniteDescriptorKey;
use miniscript::policy::{Liftable, Semantic};
use miniscript::{Miniscript, MiniscriptKey, ScriptContext, Terminal, ToPublicKey};
use serde_json::{json, Value};

use crate::alpha;
use crate::sat::{static_json, ty_json};
use crate::uni::{ast_to_abs, ast_to_string, hash_bytes, preimage, Universe, MAX_HASH_ID, MAX_KEYS};

type Pk = DefiniteDescriptorKey;

pub fn key_id(u: &Universe, pk: &Pk) -> i64 {
    let p = pk.to_public_key();
    if pk.is_x_only_key() {
        // x-only keys carry no parity: identify by the x coordinate
        let x = pk.to_x_only_pubkey();
        return (1..=MAX_KEYS).find(|&k| u.xonly[k] == x).map(|k| k as i64).unwrap_or(0);
    }
    (1..=MAX_KEYS).find(|&k| u.pks[k] == p.inner).map(|k| k as i64).unwrap_or(0)
}

pub fn hash_id(kind: &str, digest: &[u8]) -> i64 {
    (1..=MAX_HASH_ID)
        .find(|&id| hash_bytes(kind, &preimage(kind, id))[..] == *digest)
        .map(|x| x as i64)
        .unwrap_or(0)
}

fn leaf(f: &str, n: i64) -> Value { json!({"f": f, "n": n, "ks": [], "xs": []}) }

/// alpha of a library AST back into the abstract AST vocabulary of MsSpec.tla
pub fn ms_to_ast<Ctx: ScriptContext>(u: &Universe, ms: &Miniscript<Pk, Ctx>) -> Value {
    let sub = |x: &Arc<Miniscript<Pk, Ctx>>| ms_to_ast(u, x);
    let un = |f: &str, x: &Arc<Miniscript<Pk, Ctx>>| json!({"f": f, "n": 0, "ks": [], "xs": [sub(x)]});
    let bin = |f: &str, x: &Arc<Miniscript<Pk, Ctx>>, y: &Arc<Miniscript<Pk, Ctx>>| json!({"f": f, "n": 0, "ks": [], "xs": [sub(x), sub(y)]});
    match &ms.node {
        Terminal::True => leaf("1", 0),
        Terminal::False => leaf("0", 0),
        Terminal::PkK(k) => leaf("pk_k", key_id(u, k)),
        Terminal::PkH(k) => leaf("pk_h", key_id(u, k)),
        Terminal::RawPkH(_) => leaf("raw_pk_h", 0),
        Terminal::After(t) => leaf("after", bitcoin::absolute::LockTime::from(*t).to_consensus_u32() as i64),
        Terminal::Older(t) => leaf("older", t.to_consensus_u32() as i64),
        Terminal::Sha256(h) => leaf("sha256", hash_id("sha256", &h.to_byte_array())),
        Terminal::Hash256(h) => leaf("hash256", hash_id("hash256", &h.to_byte_array())),
        Terminal::Ripemd160(h) => leaf("ripemd160", hash_id("ripemd160", &h.to_byte_array())),
        Terminal::Hash160(h) => leaf("hash160", hash_id("hash160", &h.to_byte_array())),
        Terminal::Alt(x) => un("a", x),
        Terminal::Swap(x) => un("s", x),
        Terminal::Check(x) => un("c", x),
        Terminal::DupIf(x) => un("d", x),
        Terminal::Verify(x) => un("v", x),
        Terminal::NonZero(x) => un("j", x),
        Terminal::ZeroNotEqual(x) => un("n", x),
        Terminal::AndV(x, y) => bin("and_v", x, y),
        Terminal::AndB(x, y) => bin("and_b", x, y),
        Terminal::OrB(x, y) => bin("or_b", x, y),
        Terminal::OrC(x, y) => bin("or_c", x, y),
        Terminal::OrD(x, y) => bin("or_d", x, y),
        Terminal::OrI(x, y) => bin("or_i", x, y),
        Terminal::AndOr(x, y, z) => json!({"f": "andor", "n": 0, "ks": [], "xs": [sub(x), sub(y), sub(z)]}),
        Terminal::Thresh(t) => {
            json!({"f": "thresh", "n": t.k(), "ks": [], "xs": t.iter().map(|x| sub(x)).collect::<Vec<_>>()})
        }
        Terminal::Multi(t) => json!({"f": "multi", "n": t.k(), "ks": t.iter().map(|k| key_id(u, k)).collect::<Vec<_>>(), "xs": []}),
        Terminal::SortedMulti(t) => json!({"f": "sortedmulti", "n": t.k(), "ks": t.iter().map(|k| key_id(u, k)).collect::<Vec<_>>(), "xs": []}),
        Terminal::MultiA(t) => json!({"f": "multi_a", "n": t.k(), "ks": t.iter().map(|k| key_id(u, k)).collect::<Vec<_>>(), "xs": []}),
        Terminal::SortedMultiA(t) => json!({"f": "sortedmulti_a", "n": t.k(), "ks": t.iter().map(|k| key_id(u, k)).collect::<Vec<_>>(), "xs": []}),
    }
}

/// alpha of a semantic policy: uniform records [p, n, xs]
pub fn pol_to_json(u: &Universe, p: &Semantic<Pk>) -> Value {
    let l = |p: &str, n: i64| json!({"p": p, "n": n, "xs": []});
    match p {
        Semantic::Unsatisfiable => l("unsat", 0),
        Semantic::Trivial => l("trivial", 0),
        Semantic::Key(k) => l("key", key_id(u, k)),
        Semantic::After(t) => l("after", bitcoin::absolute::LockTime::from(*t).to_consensus_u32() as i64),
        Semantic::Older(t) => l("older", t.to_consensus_u32() as i64),
        Semantic::Sha256(h) => l("sha256", hash_id("sha256", &h.to_byte_array())),
        Semantic::Hash256(h) => l("hash256", hash_id("hash256", &h.to_byte_array())),
        Semantic::Ripemd160(h) => l("ripemd160", hash_id("ripemd160", &h.to_byte_array())),
        Semantic::Hash160(h) => l("hash160", hash_id("hash160", &h.to_byte_array())),
        Semantic::Thresh(t) => {
            json!({"p": "thresh", "n": t.k(), "xs": t.iter().map(|x| pol_to_json(u, x)).collect::<Vec<_>>()})
        }
    }
}

fn res_str<T, E: std::fmt::Display>(r: &Result<T, E>) -> Value {
    match r {
        Ok(_) => json!({"ok": true, "err": ""}),
        Err(e) => json!({"ok": false, "err": e.to_string()}),
    }
}

fn guarded<F: FnOnce() -> Value>(f: F) -> Value {
    match catch_unwind(AssertUnwindSafe(f)) {
        Ok(v) => v,
        Err(_) => json!({"ok": false, "err": "PANIC", "panic": true}),
    }
}

fn obs_ctx<Ctx: ScriptContext>(u: &Universe, case: &Value) -> Value {
    let ctx = case["ctx"].as_str().unwrap();
    let ast = &case["ast"];
    let s = ast_to_string(u, ast, ctx);
    let mut ev = json!({"id": format!("{}", case["id"]), "ev": "ast", "ctx": ctx, "ast": ast, "abs": ast_to_abs(ast), "dom": case["dom"]});
    // entry points
    let p_insane = catch_unwind(|| Miniscript::<Pk, Ctx>::from_str_insane(&s));
    let p_sane = catch_unwind(|| Miniscript::<Pk, Ctx>::from_str(&s));
    let p_max = catch_unwind(|| Miniscript::<Pk, Ctx>::from_str_with_validation_params(&s, &miniscript::ValidationParams::MAX));
    ev["parse"] = json!({
        "insane": p_insane.as_ref().map(res_str).unwrap_or(json!({"ok": false, "err": "PANIC", "panic": true})),
        "sane": p_sane.as_ref().map(res_str).unwrap_or(json!({"ok": false, "err": "PANIC", "panic": true})),
        "max": p_max.as_ref().map(res_str).unwrap_or(json!({"ok": false, "err": "PANIC", "panic": true})),
    });
    let ms = match p_max {
        Ok(Ok(ms)) => ms,
        _ => {
            ev["have"] = json!(false);
            return ev;
        }
    };
    ev["have"] = json!(true);
    ev["st"] = static_json(&ms);
    ev["ty"] = ty_json(&ms);
    ev["back"] = ms_to_ast(u, &ms);
    // encode / decode
    let script = ms.encode();
    ev["script"] = json!(alpha::script_ops(u, &script).unwrap_or_default());
    ev["script_len"] = json!(script.len());
    ev["dec"] = guarded(|| match Miniscript::<Ctx::Key, Ctx>::decode_consensus(&script) {
        Err(e) => json!({"ok": false, "err": e.to_string()}),
        Ok(d) => {
            // decoded keys are bitcoin::PublicKey / XOnly: compare through abstraction
            json!({"ok": true, "err": "", "same_bytes": d.encode() == script,
                   "ast": dec_to_ast::<Ctx>(u, &d), "ty": tyj(&d), "lift_eq": lift_eq(u, &ms, &d)})
        }
    });
    // decoder on instruction-level mutations of the real encoding (C04, reverse direction)
    ev["decmut"] = decode_mutants::<Ctx>(u, &script);
    // lift
    ev["lift"] = guarded(|| match ms.lift() {
        Ok(p) => json!({"ok": true, "err": "", "pol": pol_to_json(u, &p)}),
        Err(e) => json!({"ok": false, "err": e.to_string(), "pol": {"p": "unsat", "n": 0, "xs": []}}),
    });
    // validation switches (C12)
    ev["val"] = guarded(|| validation_obs::<Ctx>(&ms));
    ev["descs"] = guarded(|| desc_entry_points::<Ctx>(u, ctx, &s));
    // text
    ev["text"] = guarded(|| {
        let s1 = ms.to_string();
        let y = Miniscript::<Pk, Ctx>::from_str_with_validation_params(&s1, &miniscript::ValidationParams::MAX);
        match y {
            Err(e) => json!({"ok": false, "err": e.to_string()}),
            Ok(y) => {
                let s2 = y.to_string();
                json!({"ok": true, "err": "", "eq": y == ms, "fix": s1 == s2, "back": ms_to_ast(u, &y)})
            }
        }
    });
    ev
}

/// C04, reverse direction: instruction-level mutations of the real encoding are offered to the
/// decoder; every accepted one is reported with alpha(bytes), the decoded AST and whether the
/// decoded miniscript re-encodes to exactly the bytes offered. Judged by Trace_Ast (Encode(ast) = ops).
fn decode_mutants<Ctx: ScriptContext>(u: &Universe, script: &bitcoin::Script) -> Value {
    let bytes = script.as_bytes();
    // instruction boundaries
    let mut spans: Vec<(usize, usize)> = vec![];
    let mut last = 0usize;
    for item in script.instruction_indices() {
        match item {
            Ok((pos, _)) => {
                if pos > last || (pos == 0 && !spans.is_empty()) {
                    // close the previous span
                }
                if !spans.is_empty() {
                    let n = spans.len();
                    spans[n - 1].1 = pos;
                }
                spans.push((pos, bytes.len()));
                last = pos;
            }
            Err(_) => return json!({"tried": 0, "accepted": [], "panics": 0}),
        }
    }
    let ins: Vec<Vec<u8>> = spans.iter().map(|(a, b)| bytes[*a..*b].to_vec()).collect();
    let cat = |v: &[Vec<u8>]| -> Vec<u8> { v.iter().flat_map(|x| x.iter().copied()).collect() };
    let mut muts: Vec<(String, Vec<u8>)> = vec![];
    let alts = |op: u8| -> Vec<u8> {
        match op {
            0xac => vec![0xad, 0xba],
            0xad => vec![0xac],
            0x87 => vec![0x88],
            0x88 => vec![0x87],
            0xae => vec![0xaf],
            0xaf => vec![0xae],
            0x9c => vec![0x9d, 0x87],
            0x9d => vec![0x9c, 0x88],
            0x9a => vec![0x9b],
            0x9b => vec![0x9a],
            0x63 => vec![0x64],
            0x64 => vec![0x63],
            0x76 => vec![0x73],
            0x73 => vec![0x76],
            0x93 => vec![0xba],
            0xba => vec![0x93, 0xac],
            0xb1 => vec![0xb2],
            0xb2 => vec![0xb1],
            0xa8 => vec![0xaa, 0xa9, 0xa6],
            0xaa => vec![0xa8],
            0xa9 => vec![0xa6, 0xa8],
            0xa6 => vec![0xa9],
            0x00 => vec![0x51],
            0x7c => vec![0x6b, 0x7b],
            0x6b => vec![0x6c, 0x7c],
            0x6c => vec![0x6b],
            0x92 => vec![0x91],
            0x82 => vec![0x92],
            x if (0x51..=0x60).contains(&x) => {
                let mut v = vec![];
                if x > 0x51 {
                    v.push(x - 1);
                } else {
                    v.push(0x00);
                }
                if x < 0x60 {
                    v.push(x + 1);
                }
                v
            }
            _ => vec![],
        }
    };
    for i in 0..ins.len() {
        let mut v = ins.clone();
        v.remove(i);
        muts.push((format!("del{}", i), cat(&v)));
        let mut v = ins.clone();
        v.insert(i, ins[i].clone());
        muts.push((format!("dup{}", i), cat(&v)));
        if i + 1 < ins.len() {
            let mut v = ins.clone();
            v.swap(i, i + 1);
            muts.push((format!("swap{}", i), cat(&v)));
        }
        let mut v = ins.clone();
        v.insert(i + 1, vec![0x69]);
        muts.push((format!("verify_after{}", i), cat(&v)));
        if ins[i].len() == 1 {
            for a in alts(ins[i][0]) {
                let mut v = ins.clone();
                v[i] = vec![a];
                muts.push((format!("sub{}_{:02x}", i, a), cat(&v)));
            }
            // non-minimal spelling of a small number: OP_n as a one-byte push
            if (0x51..=0x60).contains(&ins[i][0]) {
                let mut v = ins.clone();
                v[i] = vec![0x01, ins[i][0] - 0x50];
                muts.push((format!("nonmin_num{}", i), cat(&v)));
            }
            if ins[i][0] == 0x00 {
                let mut v = ins.clone();
                v[i] = vec![0x01, 0x00];
                muts.push((format!("nonmin_zero{}", i), cat(&v)));
            }
        } else {
            let l = ins[i][0] as usize;
            if l >= 1 && l <= 75 && ins[i].len() == l + 1 {
                // direct push spelled with PUSHDATA1
                let mut p = vec![0x4c, l as u8];
                p.extend_from_slice(&ins[i][1..]);
                let mut v = ins.clone();
                v[i] = p;
                muts.push((format!("pushdata1_{}", i), cat(&v)));
                if l <= 4 {
                    // number push: value + 1 / - 1 (little endian, low byte), and a padded (non-minimal) number
                    for d in [1i16, -1] {
                        let mut p = ins[i].clone();
                        let nb = p[1] as i16 + d;
                        if (0..=0x7f).contains(&nb) {
                            p[1] = nb as u8;
                            let mut v = ins.clone();
                            v[i] = p;
                            muts.push((format!("num{}{:+}", i, d), cat(&v)));
                        }
                    }
                    if l < 4 && ins[i][l] & 0x80 == 0 {
                        let mut p = vec![(l + 1) as u8];
                        p.extend_from_slice(&ins[i][1..]);
                        p.push(0x00);
                        let mut v = ins.clone();
                        v[i] = p;
                        muts.push((format!("padded_num{}", i), cat(&v)));
                    }
                }
            }
        }
    }
    let mut accepted = vec![];
    let mut panics = 0;
    let tried = muts.len();
    for (name, b) in muts {
        if b == bytes {
            continue;
        }
        let sb = bitcoin::ScriptBuf::from_bytes(b.clone());
        let r = catch_unwind(AssertUnwindSafe(|| Miniscript::<Ctx::Key, Ctx>::decode_consensus(&sb)));
        match r {
            Err(_) => panics += 1,
            Ok(Err(_)) => {}
            Ok(Ok(d)) => {
                if accepted.len() < 40 {
                    let ast = dec_to_ast::<Ctx>(u, &d);
                    // constants outside the universe (a digest re-interpreted under another hash function, an
                    // unknown key) have no abstract name: such scripts are judged on the byte-level fact only
                    fn known(a: &Value) -> bool {
                        let f = a["f"].as_str().unwrap_or("");
                        let leaf_ok = match f {
                            "pk_k" | "pk_h" | "sha256" | "hash256" | "ripemd160" | "hash160" => a["n"].as_i64().unwrap_or(0) != 0,
                            _ => true,
                        };
                        leaf_ok
                            && a["ks"].as_array().map(|ks| ks.iter().all(|k| k.as_i64().unwrap_or(0) != 0)).unwrap_or(true)
                            && a["xs"].as_array().map(|xs| xs.iter().all(known)).unwrap_or(true)
                    }
                    accepted.push(json!({"mut": name, "known": known(&ast), "ops": alpha::script_ops(u, &sb).unwrap_or_default(), "ast": ast,
                                         "reenc_same": d.encode().as_bytes() == &b[..], "hex": crate::uni::hex(&b)}));
                }
            }
        }
    }
    json!({"tried": tried, "accepted": accepted, "panics": panics})
}

fn tyj<K: MiniscriptKey, Ctx: ScriptContext>(ms: &Miniscript<K, Ctx>) -> Value {
    use miniscript::miniscript::types::{Base, Dissat, Input};
    let c = &ms.ty.corr;
    let m = &ms.ty.mall;
    let mut fl: Vec<&str> = vec![];
    match c.input {
        Input::Zero => fl.push("z"),
        Input::One => fl.push("o"),
        Input::OneNonZero => {
            fl.push("o");
            fl.push("n")
        }
        Input::AnyNonZero => fl.push("n"),
        Input::Any => {}
    }
    if c.dissatisfiable {
        fl.push("d");
    }
    if c.unit {
        fl.push("u");
    }
    match m.dissat {
        Dissat::None => fl.push("f"),
        Dissat::Unique => fl.push("e"),
        Dissat::Unknown => {}
    }
    if m.signed {
        fl.push("s");
    }
    if m.non_malleable {
        fl.push("m");
    }
    let b = match c.base {
        Base::B => "B",
        Base::K => "K",
        Base::V => "V",
        Base::W => "W",
    };
    json!({"b": b, "fl": fl})
}

/// abstract AST of a *decoded* miniscript (keys are Ctx::Key)
fn dec_to_ast<Ctx: ScriptContext>(u: &Universe, ms: &Miniscript<Ctx::Key, Ctx>) -> Value {
    // go through the encoding of keys: serialise each key and look it up
    fn kid<K: MiniscriptKey + ToPublicKey>(u: &Universe, k: &K) -> i64 {
        let p = k.to_public_key();
        (1..=MAX_KEYS).find(|&i| u.pks[i] == p.inner || u.xonly[i] == k.to_x_only_pubkey()).map(|x| x as i64).unwrap_or(0)
    }
    fn go<K: MiniscriptKey + ToPublicKey, C: ScriptContext>(u: &Universe, ms: &Miniscript<K, C>) -> Value {
        let l = |f: &str, n: i64| json!({"f": f, "n": n, "ks": [], "xs": []});
        let un = |f: &str, x: &Arc<Miniscript<K, C>>| json!({"f": f, "n": 0, "ks": [], "xs": [go(u, x)]});
        let bin = |f: &str, x: &Arc<Miniscript<K, C>>, y: &Arc<Miniscript<K, C>>| json!({"f": f, "n": 0, "ks": [], "xs": [go(u, x), go(u, y)]});
        match &ms.node {
            Terminal::True => l("1", 0),
            Terminal::False => l("0", 0),
            Terminal::PkK(k) => l("pk_k", kid(u, k)),
            Terminal::PkH(k) => l("pk_h", kid(u, k)),
            Terminal::RawPkH(h) => {
                // identify the key whose hash160 this is
                let mut id = 0;
                for i in 1..=MAX_KEYS {
                    if bitcoin::hashes::hash160::Hash::hash(&u.pks[i].serialize()) == *h
                        || bitcoin::hashes::hash160::Hash::hash(&u.xonly[i].serialize()) == *h
                    {
                        id = i as i64;
                    }
                }
                l("pk_h", id)
            }
            Terminal::After(t) => l("after", bitcoin::absolute::LockTime::from(*t).to_consensus_u32() as i64),
            Terminal::Older(t) => l("older", t.to_consensus_u32() as i64),
            Terminal::Sha256(h) => l("sha256", hash_id("sha256", &K::to_sha256(h).to_byte_array())),
            Terminal::Hash256(h) => l("hash256", hash_id("hash256", &K::to_hash256(h).to_byte_array())),
            Terminal::Ripemd160(h) => l("ripemd160", hash_id("ripemd160", &K::to_ripemd160(h).to_byte_array())),
            Terminal::Hash160(h) => l("hash160", hash_id("hash160", &K::to_hash160(h).to_byte_array())),
            Terminal::Alt(x) => un("a", x),
            Terminal::Swap(x) => un("s", x),
            Terminal::Check(x) => un("c", x),
            Terminal::DupIf(x) => un("d", x),
            Terminal::Verify(x) => un("v", x),
            Terminal::NonZero(x) => un("j", x),
            Terminal::ZeroNotEqual(x) => un("n", x),
            Terminal::AndV(x, y) => bin("and_v", x, y),
            Terminal::AndB(x, y) => bin("and_b", x, y),
            Terminal::OrB(x, y) => bin("or_b", x, y),
            Terminal::OrC(x, y) => bin("or_c", x, y),
            Terminal::OrD(x, y) => bin("or_d", x, y),
            Terminal::OrI(x, y) => bin("or_i", x, y),
            Terminal::AndOr(x, y, z) => json!({"f": "andor", "n": 0, "ks": [], "xs": [go(u, x), go(u, y), go(u, z)]}),
            Terminal::Thresh(t) => json!({"f": "thresh", "n": t.k(), "ks": [], "xs": t.iter().map(|x| go(u, x)).collect::<Vec<_>>()}),
            Terminal::Multi(t) => json!({"f": "multi", "n": t.k(), "ks": t.iter().map(|k| kid(u, k)).collect::<Vec<_>>(), "xs": []}),
            Terminal::SortedMulti(t) => json!({"f": "sortedmulti", "n": t.k(), "ks": t.iter().map(|k| kid(u, k)).collect::<Vec<_>>(), "xs": []}),
            Terminal::MultiA(t) => json!({"f": "multi_a", "n": t.k(), "ks": t.iter().map(|k| kid(u, k)).collect::<Vec<_>>(), "xs": []}),
            Terminal::SortedMultiA(t) => json!({"f": "sortedmulti_a", "n": t.k(), "ks": t.iter().map(|k| kid(u, k)).collect::<Vec<_>>(), "xs": []}),
        }
    }
    go(u, ms)
}

fn lift_eq<Ctx: ScriptContext>(_u: &Universe, a: &Miniscript<Pk, Ctx>, d: &Miniscript<Ctx::Key, Ctx>) -> bool {
    // identical spending semantics as far as the library's own lift can tell (string compare
    // after key normalisation is not possible across key types; compare shapes)
    match (a.lift(), d.lift()) {
        (Ok(x), Ok(y)) => x.n_keys() == y.n_keys() && x.minimum_n_keys() == y.minimum_n_keys(),
        (Err(_), Err(_)) => true,
        _ => false,
    }
}

pub fn run_case(u: &Universe, case: &Value) -> Vec<Value> {
    let ctx = case["ctx"].as_str().unwrap();
    let ev = match ctx {
        "bare" => obs_ctx::<miniscript::BareCtx>(u, case),
        "legacy" => obs_ctx::<miniscript::Legacy>(u, case),
        "segwitv0" => obs_ctx::<miniscript::Segwitv0>(u, case),
        "tap" => obs_ctx::<miniscript::Tap>(u, case),
        _ => panic!("bad ctx"),
    };
    vec![ev]
}

const SWITCHES: [&str; 13] = [
    "allow_compressed_keys", "allow_duplicate_keys", "allow_dup_if", "allow_malleability", "allow_mixed_time_locks",
    "allow_multi", "allow_multi_a", "allow_or_i", "allow_sigless_branch", "allow_non_b", "allow_uncompressed_keys",
    "allow_unsatisfiable", "allow_x_only_keys",
];

fn flip(mut p: miniscript::ValidationParams, sw: &str) -> miniscript::ValidationParams {
    match sw {
        "allow_compressed_keys" => p.allow_compressed_keys = false,
        "allow_duplicate_keys" => p.allow_duplicate_keys = false,
        "allow_dup_if" => p.allow_dup_if = false,
        "allow_malleability" => p.allow_malleability = false,
        "allow_mixed_time_locks" => p.allow_mixed_time_locks = false,
        "allow_multi" => p.allow_multi = false,
        "allow_multi_a" => p.allow_multi_a = false,
        "allow_or_i" => p.allow_or_i = false,
        "allow_sigless_branch" => p.allow_sigless_branch = false,
        "allow_non_b" => p.allow_non_b = false,
        "allow_uncompressed_keys" => p.allow_uncompressed_keys = false,
        "allow_unsatisfiable" => p.allow_unsatisfiable = false,
        "allow_x_only_keys" => p.allow_x_only_keys = false,
        _ => panic!("bad switch"),
    }
    p
}

fn validation_obs<Ctx: ScriptContext>(ms: &Miniscript<Pk, Ctx>) -> Value {
    use miniscript::ValidationParams as VP;
    let mut sw = serde_json::Map::new();
    for s in SWITCHES.iter() {
        sw.insert(s.to_string(), json!(ms.validate(&flip(VP::MAX, s)).is_ok()));
    }
    // numeric limits around the library's own published figures
    let around = |figure: usize, set: &dyn Fn(&mut VP, usize)| -> Value {
        let mut out = vec![];
        for d in [-1i64, 0, 1] {
            let v = figure as i64 + d;
            if v < 0 {
                out.push(json!(false));
                continue;
            }
            let mut p = VP::MAX;
            set(&mut p, v as usize);
            out.push(json!(ms.validate(&p).is_ok()));
        }
        json!(out)
    };
    let sat = ms.ext.sat_data;
    let lim = json!({
        "script_size": around(ms.script_size(), &|p, v| p.max_script_size = v),
        "script_size_fig": ms.script_size(),
        "has_sat": sat.is_some(),
        "witness_items": match ms.max_satisfaction_witness_elements() { Ok(n) => around(n, &|p, v| p.max_witness_items = v), Err(_) => json!([true, true, true]) },
        "witness_items_fig": ms.max_satisfaction_witness_elements().map(|x| x as i64).unwrap_or(-1),
        "opcount": match sat { Some(d) => around(ms.ext.static_ops + d.max_exec_op_count, &|p, v| p.max_opcode_count = v), None => json!([true, true, true]) },
        "exec_stack": match sat { Some(d) => around(d.max_witness_stack_count + d.max_exec_stack_count, &|p, v| p.max_exec_stack_size = v), None => json!([true, true, true]) },
        "depth": around(ms.ext.tree_height, &|p, v| p.max_recursive_depth = v),
        "depth_fig": ms.ext.tree_height,
    });
    // monotonicity over the lattice generated by single flips: validate(p /\ q) ok => validate(p) ok
    let mut mono_bad: Vec<String> = vec![];
    let flips: Vec<VP> = SWITCHES.iter().map(|s| flip(VP::MAX, s)).collect();
    for (i, p) in flips.iter().enumerate() {
        for (j, q) in flips.iter().enumerate() {
            let pq = p.intersect(q);
            let ok_pq = ms.validate(&pq).is_ok();
            if ok_pq && !(ms.validate(p).is_ok() && ms.validate(q).is_ok()) {
                mono_bad.push(format!("{}&{}", SWITCHES[i], SWITCHES[j]));
            }
            if !(pq.entails(p) && pq.entails(q)) {
                mono_bad.push(format!("lattice:{}&{}", SWITCHES[i], SWITCHES[j]));
            }
        }
    }
    json!({
        "ok": true, "err": "",
        "max": ms.validate(&VP::MAX).is_ok(),
        "consensus": ms.validate(&Ctx::CONSENSUS).is_ok(),
        "sane": ms.validate(&Ctx::SANE).is_ok(),
        "sw": Value::Object(sw), "lim": lim, "mono_bad": mono_bad,
        "sane_entails_consensus": Ctx::SANE.entails(&Ctx::CONSENSUS),
    })
}

/// every descriptor-level entry point that can wrap this miniscript text
fn desc_entry_points<Ctx: ScriptContext>(u: &Universe, ctx: &str, ms_str: &str) -> Value {
    use miniscript::descriptor::{Bare, Sh, Wsh};
    use miniscript::Descriptor;
    let wraps: Vec<&str> = match ctx {
        "bare" => vec!["bare"],
        "legacy" => vec!["sh"],
        "segwitv0" => vec!["wsh", "shwsh"],
        "tap" => vec!["tr"],
        _ => vec![],
    };
    let mut out = serde_json::Map::new();
    out.insert("ok".to_string(), json!(true));
    out.insert("err".to_string(), json!(""));
    let mut list = vec![];
    for w in wraps {
        let ds = crate::sat::wrap_str(u, w, ms_str);
        let from_str = catch_unwind(|| Descriptor::<Pk>::from_str(&ds));
        let fs = match &from_str {
            Ok(Ok(_)) => "ok".to_string(),
            Ok(Err(e)) => format!("err:{}", e),
            Err(_) => "PANIC".to_string(),
        };
        // typed constructors from an already-parsed (MAX) miniscript
        let newr = catch_unwind(|| -> String {
            use miniscript::ValidationParams as VP;
            match w {
                "wsh" => match Miniscript::<Pk, miniscript::Segwitv0>::from_str_with_validation_params(ms_str, &VP::MAX) {
                    Ok(m) => if Wsh::new(m).is_ok() { "ok".into() } else { "err".into() },
                    Err(_) => "noparse".into(),
                },
                "shwsh" => match Miniscript::<Pk, miniscript::Segwitv0>::from_str_with_validation_params(ms_str, &VP::MAX) {
                    Ok(m) => if Sh::new_wsh(m).is_ok() { "ok".into() } else { "err".into() },
                    Err(_) => "noparse".into(),
                },
                "sh" => match Miniscript::<Pk, miniscript::Legacy>::from_str_with_validation_params(ms_str, &VP::MAX) {
                    Ok(m) => if Sh::new(m).is_ok() { "ok".into() } else { "err".into() },
                    Err(_) => "noparse".into(),
                },
                "bare" => match Miniscript::<Pk, miniscript::BareCtx>::from_str_with_validation_params(ms_str, &VP::MAX) {
                    Ok(m) => if Bare::new(m).is_ok() { "ok".into() } else { "err".into() },
                    Err(_) => "noparse".into(),
                },
                "tr" => match Miniscript::<Pk, miniscript::Tap>::from_str_with_validation_params(ms_str, &VP::MAX) {
                    Ok(m) => {
                        let ik = Pk::from_str(&u.key_str(crate::sat::INTERNAL_KEY, "tap")).unwrap();
                        let tree = miniscript::descriptor::TapTree::leaf(m);
                        if Descriptor::new_tr(ik, Some(tree)).is_ok() { "ok".into() } else { "err".into() }
                    }
                    Err(_) => "noparse".into(),
                },
                _ => "na".into(),
            }
        });
        list.push(json!({"wrap": w, "from_str": fs.starts_with("ok"), "from_str_msg": fs, "new": newr.unwrap_or("PANIC".into())}));
    }
    out.insert("list".to_string(), json!(list));
    Value::Object(out)
}
