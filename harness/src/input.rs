//! alpha of a whole transaction input: recognise the output template from the scriptPubKey
//! bytes alone, unpack scriptSig / witness, check hash commitments with bitcoin_hashes and
//! abstract every element. What the TLA+ VerifyInput needs as *facts* is computed here with
//! rust-bitcoin only.

use bitcoin::hashes::{hash160, sha256, Hash};
use bitcoin::taproot::{ControlBlock, LeafVersion, TapLeafHash};
use bitcoin::{Amount, Script, ScriptBuf, Transaction, TxOut};
use serde_json::{json, Value};

use crate::alpha::{self, e, p2tr_output_key, scriptsig_pushes, SigScope, Spend};
use crate::uni::Universe;

fn varint_len(n: usize) -> usize {
    if n < 0xfd {
        1
    } else if n <= 0xffff {
        3
    } else {
        5
    }
}
pub fn push_len(n: usize, first: Option<u8>) -> usize {
    // size of a minimal push of n bytes inside a script
    if n == 0 {
        1
    } else if n == 1 && first.map(|b| (1..=16).contains(&b) || b == 0x81).unwrap_or(false) {
        1
    } else if n <= 75 {
        1 + n
    } else if n <= 255 {
        2 + n
    } else {
        3 + n
    }
}

pub fn wit_size(items: &[Vec<u8>]) -> usize { items.iter().map(|i| varint_len(i.len()) + i.len()).sum() }
pub fn ssig_size(items: &[Vec<u8>]) -> usize {
    items.iter().map(|i| push_len(i.len(), i.first().copied())).sum()
}

fn p2pkh_code(h: &[u8]) -> ScriptBuf {
    let mut v = vec![0x76, 0xa9, 0x14];
    v.extend_from_slice(h);
    v.extend_from_slice(&[0x88, 0xac]);
    ScriptBuf::from_bytes(v)
}

fn elems(u: &Universe, items: &[Vec<u8>], scope: &SigScope, sp: &Spend) -> Vec<Value> {
    items.iter().map(|b| alpha::elem(u, b, scope, Some(sp))).collect()
}

/// Abstract a full input. Returns a JSON object:
///  kind, rules, script (ops), script_len, stack (elems), facts{..}, real{..}
pub fn abstract_input(
    u: &Universe,
    tx: &Transaction,
    prevout: &TxOut,
    script_sig: &Script,
    witness: &[Vec<u8>],
) -> Value {
    abstract_input_multi(u, tx, 0, &[prevout.clone()], prevout, script_sig, witness)
}

/// same for input `idx` of a multi-input transaction with all previous outputs given
pub fn abstract_input_multi(
    u: &Universe,
    tx: &Transaction,
    idx: usize,
    prevouts: &[TxOut],
    prevout: &TxOut,
    script_sig: &Script,
    witness: &[Vec<u8>],
) -> Value {
    let sp = Spend { tx, prevout, idx, prevouts: prevouts.to_vec() };
    let spk = prevout.script_pubkey.as_bytes();
    let value: Amount = prevout.value;
    let ssig_p = scriptsig_pushes(script_sig);
    let pushonly = ssig_p.is_some();
    let ssig_items = ssig_p.unwrap_or_default();
    let mut facts = json!({
        "ssig_pushonly": pushonly,
        "ssig_empty": script_sig.is_empty(),
        "wit_empty": witness.is_empty(),
        "commit": true,
        "ssig_bytes": script_sig.len(),
        "ssig_minimal": script_sig.instructions_minimal().all(|i| i.is_ok()),
    });
    let bad = |why: &str, facts: Value| json!({"kind": "malformed", "why": why, "rules": "legacy", "script": [], "script_len": 0, "stack": [], "facts": facts});

    // P2PKH
    if spk.len() == 25 && spk[0] == 0x76 && spk[1] == 0xa9 && spk[2] == 0x14 && spk[23] == 0x88 && spk[24] == 0xac {
        let scope = SigScope::Legacy { script_code: prevout.script_pubkey.clone() };
        let script = alpha::script_ops(u, &prevout.script_pubkey).unwrap_or_default();
        return json!({"kind": "pkh", "rules": "legacy", "script": script, "script_len": spk.len(),
            "stack": elems(u, &ssig_items, &scope, &sp), "facts": facts,
            "real": {"stack_items": ssig_items.len(), "ssig_stack_bytes": ssig_size(&ssig_items), "wit_stack_bytes": 0}});
    }
    // P2SH
    if spk.len() == 23 && spk[0] == 0xa9 && spk[1] == 0x14 && spk[22] == 0x87 {
        if ssig_items.is_empty() {
            return bad("p2sh_empty_scriptsig", facts);
        }
        let redeem = ScriptBuf::from_bytes(ssig_items[ssig_items.len() - 1].clone());
        let commit = hash160::Hash::hash(redeem.as_bytes()).to_byte_array()[..] == spk[2..22];
        facts["commit"] = json!(commit);
        let rb = redeem.as_bytes();
        // nested segwit?
        if rb.len() == 22 && rb[0] == 0 && rb[1] == 0x14 {
            facts["ssig_single_push"] = json!(ssig_items.len() == 1);
            return wpkh_like(u, "shwpkh", &rb[2..22], value, witness, &sp, facts);
        }
        if rb.len() == 34 && rb[0] == 0 && rb[1] == 0x20 {
            facts["ssig_single_push"] = json!(ssig_items.len() == 1);
            return wsh_like(u, "shwsh", &rb[2..34], value, witness, &sp, facts);
        }
        let scope = SigScope::Legacy { script_code: redeem.clone() };
        let stack = &ssig_items[..ssig_items.len() - 1];
        return match alpha::script_ops(u, &redeem) {
            Ok(script) => json!({"kind": "sh", "rules": "legacy", "script": script, "script_len": rb.len(),
                "stack": elems(u, stack, &scope, &sp), "facts": facts,
                "real": {"stack_items": stack.len(), "ssig_stack_bytes": ssig_size(stack), "wit_stack_bytes": 0}}),
            Err(_) => bad("redeem_script_unparsable", facts),
        };
    }
    // P2WPKH
    if spk.len() == 22 && spk[0] == 0 && spk[1] == 0x14 {
        return wpkh_like(u, "wpkh", &spk[2..22], value, witness, &sp, facts);
    }
    // P2WSH
    if spk.len() == 34 && spk[0] == 0 && spk[1] == 0x20 {
        return wsh_like(u, "wsh", &spk[2..34], value, witness, &sp, facts);
    }
    // P2TR
    if let Some(outk) = p2tr_output_key(&prevout.script_pubkey) {
        let mut wit: Vec<Vec<u8>> = witness.to_vec();
        // annex
        if wit.len() >= 2 && wit[wit.len() - 1].first() == Some(&0x50) {
            wit.pop();
            facts["annex"] = json!(true);
        }
        if wit.is_empty() {
            return bad("p2tr_empty_witness", facts);
        }
        if wit.len() == 1 {
            let scope = SigScope::TapKey;
            return json!({"kind": "trkey", "rules": "tap", "script": [], "script_len": 0,
                "stack": elems(u, &wit, &scope, &sp), "facts": facts,
                "real": {"stack_items": 1, "ssig_stack_bytes": 0, "wit_stack_bytes": wit_size(&wit)}});
        }
        let cb_bytes = wit[wit.len() - 1].clone();
        let script = ScriptBuf::from_bytes(wit[wit.len() - 2].clone());
        let stack = &wit[..wit.len() - 2];
        let mut ctrl_ok = false;
        let mut leaf_ver_ok = false;
        if let Ok(cb) = ControlBlock::decode(&cb_bytes) {
            leaf_ver_ok = cb.leaf_version == LeafVersion::TapScript;
            ctrl_ok = cb.verify_taproot_commitment(&u.secp, outk, &script);
            facts["ctrl_depth"] = json!(cb.merkle_branch.len());
        }
        facts["commit"] = json!(ctrl_ok);
        facts["leaf_ver_ok"] = json!(leaf_ver_ok);
        let lh = TapLeafHash::from_script(&script, LeafVersion::TapScript);
        let scope = SigScope::TapLeaf { leaf_hash: lh };
        return match alpha::script_ops(u, &script) {
            Ok(ops) => json!({"kind": "trscript", "rules": "tap", "script": ops, "script_len": script.len(),
                "stack": elems(u, stack, &scope, &sp), "facts": facts,
                "real": {"stack_items": stack.len(), "ssig_stack_bytes": 0, "wit_stack_bytes": wit_size(stack),
                         "ctrl_bytes": cb_bytes.len()}}),
            Err(_) => bad("leaf_script_unparsable", facts),
        };
    }
    // bare
    let scope = SigScope::Legacy { script_code: prevout.script_pubkey.clone() };
    match alpha::script_ops(u, &prevout.script_pubkey) {
        Ok(script) => json!({"kind": "bare", "rules": "legacy", "script": script, "script_len": spk.len(),
            "stack": elems(u, &ssig_items, &scope, &sp), "facts": facts,
            "real": {"stack_items": ssig_items.len(), "ssig_stack_bytes": ssig_size(&ssig_items), "wit_stack_bytes": 0}}),
        Err(_) => bad("spk_unparsable", facts),
    }
}

fn wpkh_like(u: &Universe, kind: &str, h: &[u8], value: Amount, witness: &[Vec<u8>], sp: &Spend, facts: Value) -> Value {
    let code = p2pkh_code(h);
    let scope = SigScope::SegwitV0 { script_code: code.clone(), value };
    let script = alpha::script_ops(u, &code).unwrap_or_default();
    json!({"kind": kind, "rules": "segwitv0", "script": script, "script_len": 25,
        "stack": elems(u, witness, &scope, sp), "facts": facts,
        "real": {"stack_items": witness.len(), "ssig_stack_bytes": 0, "wit_stack_bytes": wit_size(witness)}})
}

fn wsh_like(u: &Universe, kind: &str, prog: &[u8], value: Amount, witness: &[Vec<u8>], sp: &Spend, mut facts: Value) -> Value {
    if witness.is_empty() {
        return json!({"kind": "malformed", "why": "wsh_empty_witness", "rules": "segwitv0", "script": [], "script_len": 0, "stack": [], "facts": facts});
    }
    let script = ScriptBuf::from_bytes(witness[witness.len() - 1].clone());
    let commit = sha256::Hash::hash(script.as_bytes()).to_byte_array()[..] == *prog;
    let prev = facts["commit"].as_bool().unwrap_or(true);
    facts["commit"] = json!(commit && prev);
    let stack = &witness[..witness.len() - 1];
    let scope = SigScope::SegwitV0 { script_code: script.clone(), value };
    match alpha::script_ops(u, &script) {
        Ok(ops) => json!({"kind": kind, "rules": "segwitv0", "script": ops, "script_len": script.len(),
            "stack": elems(u, stack, &scope, sp), "facts": facts,
            "real": {"stack_items": stack.len(), "ssig_stack_bytes": 0, "wit_stack_bytes": wit_size(stack)}}),
        Err(_) => json!({"kind": "malformed", "why": "witness_script_unparsable", "rules": "segwitv0", "script": [], "script_len": 0, "stack": [], "facts": facts}),
    }
}

#[allow(dead_code)]
fn _e() -> Value { e("e0", 0, "") }
