//! `types`: call the library's type-rule constructors on explicitly constructed child
//! types over the complete finite domain (80 correctness x 12 malleability values).
//! Types travel as indices 0..959; -1 = the rule returned an error; -2 = panic.

use std::panic::{catch_unwind, AssertUnwindSafe};

use miniscript::miniscript::types::{Base, Correctness, Dissat, Input, Malleability, Type};
use serde_json::{json, Value};

const BASES: [Base; 4] = [Base::B, Base::K, Base::V, Base::W];
const INPUTS: [Input; 5] = [Input::Zero, Input::One, Input::Any, Input::OneNonZero, Input::AnyNonZero];
const DISSATS: [Dissat; 3] = [Dissat::None, Dissat::Unique, Dissat::Unknown];

pub fn ty_of(idx: usize) -> Type {
    let mut i = idx;
    let m = i % 2; i /= 2;
    let s = i % 2; i /= 2;
    let ds = i % 3; i /= 3;
    let u = i % 2; i /= 2;
    let d = i % 2; i /= 2;
    let inp = i % 5; i /= 5;
    let b = i % 4;
    Type {
        corr: Correctness { base: BASES[b], input: INPUTS[inp], dissatisfiable: d == 1, unit: u == 1 },
        mall: Malleability { dissat: DISSATS[ds], signed: s == 1, non_malleable: m == 1 },
    }
}

pub fn idx_of(t: &Type) -> i64 {
    let b = BASES.iter().position(|x| *x == t.corr.base).unwrap();
    let inp = INPUTS.iter().position(|x| *x == t.corr.input).unwrap();
    let ds = DISSATS.iter().position(|x| *x == t.mall.dissat).unwrap();
    let d = t.corr.dissatisfiable as usize;
    let u = t.corr.unit as usize;
    let s = t.mall.signed as usize;
    let m = t.mall.non_malleable as usize;
    ((((((b * 5 + inp) * 2 + d) * 2 + u) * 3 + ds) * 2 + s) * 2 + m) as i64
}

fn enc<E>(r: std::thread::Result<Result<Type, E>>) -> i64 {
    match r {
        Err(_) => -2,
        Ok(Err(_)) => -1,
        Ok(Ok(t)) => idx_of(&t),
    }
}

fn un(rule: &str, x: Type) -> i64 {
    enc(catch_unwind(AssertUnwindSafe(|| match rule {
        "a" => x.cast_alt(),
        "s" => x.cast_swap(),
        "c" => x.cast_check(),
        "d" => x.cast_dupif(),
        "v" => x.cast_verify(),
        "j" => x.cast_nonzero(),
        "n" => x.cast_zeronotequal(),
        "t" => x.cast_true(),
        "u" => x.cast_unlikely(),
        "l" => x.cast_likely(),
        _ => panic!("bad rule"),
    })))
}

fn bin(rule: &str, x: Type, y: Type) -> i64 {
    enc(catch_unwind(AssertUnwindSafe(|| match rule {
        "and_b" => Type::and_b(x, y),
        "and_v" => Type::and_v(x, y),
        "or_b" => Type::or_b(x, y),
        "or_d" => Type::or_d(x, y),
        "or_c" => Type::or_c(x, y),
        "or_i" => Type::or_i(x, y),
        _ => panic!("bad rule"),
    })))
}

pub fn run_case(case: &Value) -> Vec<Value> {
    let job = case["job"].as_str().unwrap();
    let mut ev = case.clone();
    ev["ev"] = json!("types");
    ev["id"] = json!(format!("{}", case["id"]));
    let res: Vec<i64> = match job {
        "leaf" => {
            vec![
                idx_of(&Type::TRUE), idx_of(&Type::FALSE), idx_of(&Type::pk_k()), idx_of(&Type::pk_h()),
                idx_of(&Type::multi()), idx_of(&Type::multi_a()), idx_of(&Type::hash()), idx_of(&Type::time()),
                idx_of(&Type::sortedmulti()), idx_of(&Type::sortedmulti_a()),
            ]
        }
        "un" => {
            let rule = case["rule"].as_str().unwrap();
            (0..960).map(|i| un(rule, ty_of(i))).collect()
        }
        "bin" => {
            let rule = case["rule"].as_str().unwrap();
            let x = ty_of(case["x"].as_u64().unwrap() as usize);
            (0..960).map(|i| bin(rule, x, ty_of(i))).collect()
        }
        "andor" => {
            let x = ty_of(case["x"].as_u64().unwrap() as usize);
            let y = ty_of(case["y"].as_u64().unwrap() as usize);
            (0..960).map(|i| enc(catch_unwind(AssertUnwindSafe(|| Type::and_or(x, y, ty_of(i)))))).collect()
        }
        "thresh" => {
            let k = case["k"].as_u64().unwrap() as usize;
            let kids: Vec<Type> = case["kids"].as_array().unwrap().iter().map(|v| ty_of(v.as_u64().unwrap() as usize)).collect();
            let mut lasts: Vec<usize> = case["lasts"].as_array().map(|a| a.iter().map(|v| v.as_u64().unwrap() as usize).collect()).unwrap_or_default();
            if lasts.is_empty() {
                lasts = (0..960).collect();
            }
            lasts
                .iter()
                .map(|&i| {
                    let mut all = kids.clone();
                    all.push(ty_of(i));
                    enc(catch_unwind(AssertUnwindSafe(|| Type::threshold(k, all.iter()))))
                })
                .collect()
        }
        _ => panic!("bad job"),
    };
    ev["res"] = json!(res);
    vec![ev]
}
