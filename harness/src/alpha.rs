//! The abstraction function alpha: concrete bytes produced by the library -> the abstract
//! alphabet of the TLA+ specification (Script.tla). Deliberately dumb and byte-level; uses
//! only rust-bitcoin / secp256k1 / bitcoin_hashes, never the crate under test.

use bitcoin::hashes::{hash160, Hash};
use bitcoin::opcodes::all as op;
use bitcoin::script::Instruction;
use bitcoin::secp256k1::{self, Message};
use bitcoin::sighash::{Prevouts, SighashCache};
use bitcoin::taproot::TapLeafHash;
use bitcoin::{Amount, EcdsaSighashType, Script, ScriptBuf, TapSighashType, Transaction, TxOut};
use serde_json::{json, Value};

use crate::uni::{hash_bytes, preimage, Universe, HASH_KINDS, MAX_HASH_ID, MAX_KEYS};

pub fn e(t: &str, k: i64, q: &str) -> Value { json!({"t": t, "k": k, "q": q}) }
pub fn e0() -> Value { e("e0", 0, "") }

/// Which signature-hash algorithm applies to signatures found in this stack.
#[derive(Clone)]
pub enum SigScope {
    Legacy { script_code: ScriptBuf },
    SegwitV0 { script_code: ScriptBuf, value: Amount },
    TapLeaf { leaf_hash: TapLeafHash },
    TapKey,
    None,
}

pub struct Spend<'a> {
    pub tx: &'a Transaction,
    pub prevout: &'a TxOut,
    /// index of the input being spent
    pub idx: usize,
    /// all previous outputs of the transaction (taproot sighash commits to all of them)
    pub prevouts: Vec<TxOut>,
}

impl<'a> Spend<'a> {
    pub fn single(tx: &'a Transaction, prevout: &'a TxOut) -> Self {
        Spend { tx, prevout, idx: 0, prevouts: vec![prevout.clone()] }
    }
}

/// parse a minimally-encoded non-negative script number of at most 5 bytes
pub fn minimal_num(b: &[u8]) -> Option<i64> {
    if b.is_empty() || b.len() > 5 {
        return None;
    }
    let last = b[b.len() - 1];
    if last & 0x80 != 0 {
        return None; // negative (or negative zero)
    }
    if last == 0 && (b.len() == 1 || b[b.len() - 2] & 0x80 == 0) {
        return None; // non-minimal
    }
    let mut v: i64 = 0;
    for (i, x) in b.iter().enumerate() {
        v |= (*x as i64) << (8 * i);
    }
    if v == 0 || v >= 2147483647 {
        return None;
    }
    Some(v)
}

fn is_false_bytes(b: &[u8]) -> bool {
    // CastToBool: all zero, or negative zero
    for (i, x) in b.iter().enumerate() {
        if *x != 0 {
            return i == b.len() - 1 && *x == 0x80;
        }
    }
    true
}

pub fn ecdsa_msg(sp: &Spend, scope: &SigScope, ty: EcdsaSighashType) -> Option<Message> {
    let mut cache = SighashCache::new(sp.tx);
    match scope {
        SigScope::Legacy { script_code } => cache
            .legacy_signature_hash(sp.idx, script_code, ty.to_u32())
            .ok()
            .map(|h| Message::from_digest(h.to_byte_array())),
        SigScope::SegwitV0 { script_code, value } => cache
            .p2wsh_signature_hash(sp.idx, script_code, *value, ty)
            .ok()
            .map(|h| Message::from_digest(h.to_byte_array())),
        _ => None,
    }
}

pub fn schnorr_msg(sp: &Spend, scope: &SigScope, ty: TapSighashType) -> Option<Message> {
    let mut cache = SighashCache::new(sp.tx);
    let prevouts = Prevouts::All(&sp.prevouts);
    match scope {
        SigScope::TapLeaf { leaf_hash } => cache
            .taproot_script_spend_signature_hash(sp.idx, &prevouts, *leaf_hash, ty)
            .ok()
            .map(|h| Message::from_digest(h.to_byte_array())),
        SigScope::TapKey => cache
            .taproot_key_spend_signature_hash(sp.idx, &prevouts, ty)
            .ok()
            .map(|h| Message::from_digest(h.to_byte_array())),
        _ => None,
    }
}

fn junk_id(b: &[u8]) -> i64 {
    if b == [0xde, 0xad, 0xbe, 0xef, 0x01] || b == [0x5a; 32] {
        1
    } else {
        2
    }
}

/// alpha of one stack element (witness item / scriptSig push).
pub fn elem(u: &Universe, b: &[u8], scope: &SigScope, sp: Option<&Spend>) -> Value {
    if b.is_empty() {
        return e0();
    }
    if let Some(n) = minimal_num(b) {
        if b.len() <= 4 {
            return e("num", n, "");
        }
    }
    if b.len() <= 4 && is_false_bytes(b) {
        return e("fz", 0, "");
    }
    if b.len() == 32 {
        if b.iter().all(|x| *x == 0) {
            return e("z32", 0, "");
        }
        for kind in HASH_KINDS.iter() {
            for id in 1..=MAX_HASH_ID {
                if preimage(kind, id)[..] == *b {
                    return e("pre", id as i64, kind);
                }
            }
        }
        if let Some(k) = u.key_id_of_xonly(b) {
            return e("key", k as i64, "x");
        }
        return e("j32", junk_id(b), "");
    }
    if b.len() == 33 {
        if let Some(k) = u.key_id_of_compressed(b) {
            return e("key", k as i64, "c");
        }
    }
    if b.len() == 65 && (b[0] == 4) {
        if let Some(k) = u.key_id_of_uncompressed(b) {
            return e("key", k as i64, "u");
        }
    }
    // signatures
    match scope {
        SigScope::Legacy { .. } | SigScope::SegwitV0 { .. } => {
            if let Ok(sig) = bitcoin::ecdsa::Signature::from_slice(b) {
                // strict DER is what from_slice enforces (secp from_der); the sighash byte
                // must be a standard one for rust-bitcoin to parse it
                if let Some(sp) = sp {
                    if let Some(msg) = ecdsa_msg(sp, scope, sig.sighash_type) {
                        for k in 1..=MAX_KEYS {
                            if u.secp.verify_ecdsa(&msg, &sig.signature, &u.pks[k]).is_ok() {
                                return e("sig", k as i64, "good");
                            }
                        }
                    }
                }
                return e("sig", 0, "bad");
            }
        }
        SigScope::TapLeaf { .. } | SigScope::TapKey => {
            if b.len() == 64 || b.len() == 65 {
                if let Ok(sig) = bitcoin::taproot::Signature::from_slice(b) {
                    if let Some(sp) = sp {
                        if let Some(msg) = schnorr_msg(sp, scope, sig.sighash_type) {
                            for k in 1..=MAX_KEYS {
                                if u.secp.verify_schnorr(&sig.signature, &msg, &u.xonly[k]).is_ok() {
                                    return e("sig", k as i64, "good");
                                }
                            }
                            if let SigScope::TapKey = scope {
                                // key-path signatures verify against the *output* key
                                if let Some(outk) = p2tr_output_key(&sp.prevout.script_pubkey) {
                                    if u.secp.verify_schnorr(&sig.signature, &msg, &outk).is_ok() {
                                        return e("sig", 0, "good");
                                    }
                                }
                            }
                        }
                    }
                    return e("sig", 0, "bad");
                }
            }
        }
        SigScope::None => {}
    }
    e("junk", junk_id(b), "")
}

pub fn p2tr_output_key(spk: &Script) -> Option<secp256k1::XOnlyPublicKey> {
    let b = spk.as_bytes();
    if b.len() == 34 && b[0] == 0x51 && b[1] == 0x20 {
        secp256k1::XOnlyPublicKey::from_slice(&b[2..]).ok()
    } else {
        None
    }
}

/// alpha of a constant pushed *by a script*
pub fn script_const(u: &Universe, b: &[u8]) -> Value {
    if b.is_empty() {
        return e0();
    }
    if b.len() == 33 {
        if let Some(k) = u.key_id_of_compressed(b) {
            return e("key", k as i64, "c");
        }
    }
    if b.len() == 65 {
        if let Some(k) = u.key_id_of_uncompressed(b) {
            return e("key", k as i64, "u");
        }
    }
    if b.len() == 32 {
        if let Some(k) = u.key_id_of_xonly(b) {
            return e("key", k as i64, "x");
        }
        for kind in ["sha256", "hash256"].iter() {
            for id in 1..=MAX_HASH_ID {
                if hash_bytes(kind, &preimage(kind, id))[..] == *b {
                    return e("hash", id as i64, kind);
                }
            }
        }
        return e("j32", junk_id(b), "");
    }
    if b.len() == 20 {
        for kind in ["ripemd160", "hash160"].iter() {
            for id in 1..=MAX_HASH_ID {
                if hash_bytes(kind, &preimage(kind, id))[..] == *b {
                    return e("hash", id as i64, kind);
                }
            }
        }
        for k in 1..=MAX_KEYS {
            if hash160::Hash::hash(&u.pks[k].serialize()).to_byte_array()[..] == *b {
                return e("kh", k as i64, "c");
            }
            if hash160::Hash::hash(&u.pks[k].serialize_uncompressed()).to_byte_array()[..] == *b {
                return e("kh", k as i64, "u");
            }
            if hash160::Hash::hash(&u.xonly[k].serialize()).to_byte_array()[..] == *b {
                return e("kh", k as i64, "x");
            }
        }
        return e("junk", 3, "");
    }
    if let Some(n) = minimal_num(b) {
        return e("num", n, "");
    }
    e("junk", junk_id(b), "")
}

pub fn opname(o: bitcoin::opcodes::Opcode) -> &'static str {
    match o {
        x if x == op::OP_IF => "IF",
        x if x == op::OP_NOTIF => "NOTIF",
        x if x == op::OP_ELSE => "ELSE",
        x if x == op::OP_ENDIF => "ENDIF",
        x if x == op::OP_VERIFY => "VERIFY",
        x if x == op::OP_TOALTSTACK => "TOALTSTACK",
        x if x == op::OP_FROMALTSTACK => "FROMALTSTACK",
        x if x == op::OP_IFDUP => "IFDUP",
        x if x == op::OP_DUP => "DUP",
        x if x == op::OP_DROP => "DROP",
        x if x == op::OP_SWAP => "SWAP",
        x if x == op::OP_SIZE => "SIZE",
        x if x == op::OP_EQUAL => "EQUAL",
        x if x == op::OP_EQUALVERIFY => "EQUALVERIFY",
        x if x == op::OP_BOOLAND => "BOOLAND",
        x if x == op::OP_BOOLOR => "BOOLOR",
        x if x == op::OP_ADD => "ADD",
        x if x == op::OP_NUMEQUAL => "NUMEQUAL",
        x if x == op::OP_NUMEQUALVERIFY => "NUMEQUALVERIFY",
        x if x == op::OP_0NOTEQUAL => "0NOTEQUAL",
        x if x == op::OP_CHECKSIG => "CHECKSIG",
        x if x == op::OP_CHECKSIGVERIFY => "CHECKSIGVERIFY",
        x if x == op::OP_CHECKSIGADD => "CHECKSIGADD",
        x if x == op::OP_CHECKMULTISIG => "CHECKMULTISIG",
        x if x == op::OP_CHECKMULTISIGVERIFY => "CHECKMULTISIGVERIFY",
        x if x == op::OP_CLTV => "CLTV",
        x if x == op::OP_CSV => "CSV",
        x if x == op::OP_SHA256 => "SHA256",
        x if x == op::OP_HASH256 => "HASH256",
        x if x == op::OP_RIPEMD160 => "RIPEMD160",
        x if x == op::OP_HASH160 => "HASH160",
        _ => "OTHER",
    }
}

/// alpha of a script: Ok(ops) or Err(reason) when the bytes do not even parse as pushes/opcodes
pub fn script_ops(u: &Universe, s: &Script) -> Result<Vec<Value>, String> {
    let mut out = vec![];
    for ins in s.instructions() {
        match ins {
            Err(err) => return Err(format!("{:?}", err)),
            Ok(Instruction::PushBytes(pb)) => {
                out.push(json!({"op": "PUSH", "e": script_const(u, pb.as_bytes())}));
            }
            Ok(Instruction::Op(o)) => {
                let c = o.to_u8();
                if (0x51..=0x60).contains(&c) {
                    out.push(json!({"op": "PUSH", "e": e("num", (c - 0x50) as i64, "")}));
                } else {
                    out.push(json!({"op": opname(o), "e": e0()}));
                }
            }
        }
    }
    Ok(out)
}

/// scriptSig -> pushes (None if it contains a non-push opcode)
pub fn scriptsig_pushes(s: &Script) -> Option<Vec<Vec<u8>>> {
    let mut out = vec![];
    for ins in s.instructions() {
        match ins {
            Ok(Instruction::PushBytes(pb)) => out.push(pb.as_bytes().to_vec()),
            Ok(Instruction::Op(o)) => {
                let c = o.to_u8();
                if (0x51..=0x60).contains(&c) {
                    out.push(vec![c - 0x50]);
                } else if c == 0x4f {
                    out.push(vec![0x81]);
                } else {
                    return None;
                }
            }
            Err(_) => return None,
        }
    }
    Some(out)
}
