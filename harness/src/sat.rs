//! `sat`: the spine. For every (AST, wrapper, world, mode, route) ask the real library for a
//! satisfaction, build the real spending input and emit alpha of everything. No verdicts here.

use std::cell::RefCell;
use std::collections::BTreeMap;
use std::panic::{catch_unwind, AssertUnwindSafe};
use std::str::FromStr;

use bitcoin::{Amount, ScriptBuf, TxOut, Witness};
use miniscript::descriptor::{DefiniteDescriptorKey, ShInner};
use miniscript::{Descriptor, Miniscript, ScriptContext};
use serde_json::{json, Value};

use crate::alpha::{self, SigScope};
use crate::input::abstract_input;
use crate::uni::{ast_to_abs, ast_to_string, Universe};
use crate::world::{World, WorldSat, PREV_VALUE};

pub type Desc = Descriptor<DefiniteDescriptorKey>;

pub const INTERNAL_KEY: usize = 20;

/// descriptor text of `wrap` around the AST (the key form follows the wrapper)
pub fn desc_text(u: &Universe, wrap: &str, ast: &Value, ctx: &str) -> String {
    let kctx = if wrap == "tr33" { "tap33" } else { ctx };
    wrap_str(u, wrap, &ast_to_string(u, ast, kctx))
}

pub fn wrap_str(u: &Universe, wrap: &str, ms: &str) -> String {
    match wrap {
        "bare" => ms.to_string(),
        "sh" => format!("sh({})", ms),
        "wsh" => format!("wsh({})", ms),
        "shwsh" => format!("sh(wsh({}))", ms),
        "tr" => format!("tr({},{})", u.key_str(INTERNAL_KEY, "tap"), ms),
        // the same taproot descriptor with every key written in its 33-byte compressed form
        "tr33" => format!("tr({},{})", u.key_str(INTERNAL_KEY, "tap33"), ms),
        _ => panic!("unknown wrap {}", wrap),
    }
}

pub fn ty_json<Ctx: ScriptContext>(ms: &Miniscript<DefiniteDescriptorKey, Ctx>) -> Value {
    use miniscript::miniscript::types::{Base, Dissat, Input};
    let c = &ms.ty.corr;
    let m = &ms.ty.mall;
    let mut fl: Vec<&str> = vec![];
    match c.input {
        Input::Zero => fl.push("z"),
        Input::One => fl.push("o"),
        Input::OneNonZero => {
            fl.push("o");
            fl.push("n")
        }
        Input::AnyNonZero => fl.push("n"),
        Input::Any => {}
    }
    if c.dissatisfiable {
        fl.push("d");
    }
    if c.unit {
        fl.push("u");
    }
    match m.dissat {
        Dissat::None => fl.push("f"),
        Dissat::Unique => fl.push("e"),
        Dissat::Unknown => {}
    }
    if m.signed {
        fl.push("s");
    }
    if m.non_malleable {
        fl.push("m");
    }
    let b = match c.base {
        Base::B => "B",
        Base::K => "K",
        Base::V => "V",
        Base::W => "W",
    };
    json!({"b": b, "fl": fl})
}

fn satdata_json(d: &Option<miniscript::miniscript::types::extra_props::SatData>) -> Value {
    match d {
        None => json!({"some": false, "wit_size": 0, "wit_count": 0, "ssig_size": 0, "exec_stack": 0, "exec_ops": 0}),
        Some(d) => json!({"some": true,
            "wit_size": d.max_witness_stack_size, "wit_count": d.max_witness_stack_count,
            "ssig_size": d.max_script_sig_size, "exec_stack": d.max_exec_stack_count,
            "exec_ops": d.max_exec_op_count}),
    }
}

pub fn static_json<Ctx: ScriptContext>(ms: &Miniscript<DefiniteDescriptorKey, Ctx>) -> Value {
    let e = &ms.ext;
    json!({
        "ty": ty_json(ms),
        "script_size": ms.script_size(),
        "max_wit_elems": ms.max_satisfaction_witness_elements().map(|x| x as i64).unwrap_or(-1),
        "max_sat_size": ms.max_satisfaction_size().map(|x| x as i64).unwrap_or(-1),
        "pk_cost": e.pk_cost,
        "static_ops": e.static_ops,
        "sat": satdata_json(&e.sat_data),
        "dissat": satdata_json(&e.dissat_data),
        "tree_height": e.tree_height,
        "within_limits": ms.within_resource_limits(),
        "sane": ms.validate(&Ctx::SANE).is_ok(),
        "consensus_ok": ms.validate(&Ctx::CONSENSUS).is_ok(),
        "non_mall": ms.is_non_malleable(),
        "requires_sig": ms.requires_sig(),
        "mixed_tl": ms.has_mixed_timelocks(),
        "rep_keys": ms.has_repeated_keys(),
    })
}

/// static figures and the inner script of a descriptor
pub fn desc_static(u: &Universe, d: &Desc) -> Value {
    let (st, script): (Value, Option<ScriptBuf>) = match d {
        Descriptor::Bare(b) => (static_json(b.as_inner()), Some(b.as_inner().encode())),
        Descriptor::Wsh(w) => (static_json(w.as_inner()), Some(w.as_inner().encode())),
        Descriptor::Sh(sh) => match sh.as_inner() {
            ShInner::Ms(ms) => (static_json(ms), Some(ms.encode())),
            ShInner::Wsh(w) => (static_json(w.as_inner()), Some(w.as_inner().encode())),
            _ => (Value::Null, None),
        },
        Descriptor::Tr(tr) => match tr.leaves().next() {
            Some(l) => (static_json(l.miniscript().as_ref()), Some(l.compute_script())),
            None => (Value::Null, None),
        },
        _ => (Value::Null, None),
    };
    let ops = script.as_ref().map(|s| alpha::script_ops(u, s).unwrap_or_default());
    json!({
        "ms": st,
        "script": ops,
        "script_bytes": script.as_ref().map(|s| s.len()),
        "max_weight": d.max_weight_to_satisfy().ok().map(|w| w.to_wu() as i64).unwrap_or(-1),
    })
}

fn panic_msg(p: Box<dyn std::any::Any + Send>) -> String {
    if let Some(s) = p.downcast_ref::<&str>() {
        s.to_string()
    } else if let Some(s) = p.downcast_ref::<String>() {
        s.clone()
    } else {
        "panic".to_string()
    }
}

fn ecdsa_scope(d: &Desc, value: Amount) -> SigScope {
    match d {
        Descriptor::Bare(_) | Descriptor::Pkh(_) => SigScope::Legacy { script_code: d.script_code().unwrap() },
        Descriptor::Sh(sh) => match sh.as_inner() {
            ShInner::Ms(_) => SigScope::Legacy { script_code: d.script_code().unwrap() },
            _ => SigScope::SegwitV0 { script_code: d.script_code().unwrap(), value },
        },
        Descriptor::Wsh(_) | Descriptor::Wpkh(_) => SigScope::SegwitV0 { script_code: d.script_code().unwrap(), value },
        Descriptor::Tr(_) => SigScope::None,
    }
}

/// one (descriptor, world, mode, route) execution
pub fn one_result(u: &Universe, d: &Desc, w: &World, mode: &str, route: &str, static_script: Option<&Value>) -> Value {
    let tx = w.tx();
    let prevout = TxOut { value: Amount::from_sat(PREV_VALUE), script_pubkey: d.script_pubkey() };
    let sat = WorldSat {
        u,
        w,
        tx: &tx,
        prevout: &prevout,
        ecdsa_scope: ecdsa_scope(d, prevout.value),
        internal_key: Some(INTERNAL_KEY),
        cache: RefCell::new(BTreeMap::new()),
    };
    // key-path signature of a taproot output (only when the world lets the internal key sign):
    // the internal key pair tweaked with the merkle root of the descriptor's tree, over the
    // key-spend sighash
    if let (Descriptor::Tr(tr), true) = (d, w.ik) {
        use bitcoin::key::TapTweak;
        let sp = alpha::Spend::single(&tx, &prevout);
        if let Some(msg) = alpha::schnorr_msg(&sp, &SigScope::TapKey, bitcoin::TapSighashType::Default) {
            let tweaked = u.keypairs[INTERNAL_KEY].tap_tweak(&u.secp, tr.spend_info().merkle_root());
            #[allow(deprecated)]
            let sig = u.secp.sign_schnorr_no_aux_rand(&msg, &tweaked.to_inner());
            let ts = bitcoin::taproot::Signature { signature: sig, sighash_type: bitcoin::TapSighashType::Default };
            sat.cache.borrow_mut().insert((INTERNAL_KEY, b"keyspend".to_vec()), ts.to_vec());
        }
    }
    let mut plan_info = Value::Null;
    let r = catch_unwind(AssertUnwindSafe(|| -> Result<(Vec<Vec<u8>>, ScriptBuf), String> {
        match (route, mode) {
            ("desc", "nonmall") => d.get_satisfaction(&sat).map_err(|e| e.to_string()),
            ("desc", "mall") => d.get_satisfaction_mall(&sat).map_err(|e| e.to_string()),
            ("plan", m) => {
                let p = if m == "nonmall" { d.clone().plan(&sat) } else { d.clone().plan_mall(&sat) };
                match p {
                    Err(_) => Err("noplan".to_string()),
                    Ok(plan) => {
                        plan_info = json!({
                            "abs": plan.absolute_timelock.map(|l| l.to_consensus_u32() as i64).unwrap_or(-1),
                            "rel": plan.relative_timelock.map(|l| l.to_consensus_u32() as i64).unwrap_or(-1),
                            "wit_size": plan.witness_size(),
                            "ssig_size": plan.scriptsig_size(),
                            "weight": plan.satisfaction_weight(),
                        });
                        plan.satisfy(&sat).map_err(|e| format!("plan_satisfy:{}", e))
                    }
                }
            }
            _ => Err("badroute".to_string()),
        }
    }));
    let base = json!({"w": w.json, "mode": mode, "route": route});
    let mut out = base;
    match r {
        Err(p) => {
            out["r"] = json!("panic");
            out["msg"] = json!(panic_msg(p));
        }
        Ok(Err(msg)) => {
            out["r"] = json!("none");
            out["msg"] = json!(msg);
        }
        Ok(Ok((witness, script_sig))) => {
            out["r"] = json!("ok");
            let inp = abstract_input(u, &tx, &prevout, &script_sig, &witness);
            // real weight delta of the satisfied input
            let mut txin = tx.input[0].clone();
            let w0 = txin.segwit_weight().to_wu();
            txin.script_sig = script_sig.clone();
            txin.witness = Witness::from_slice(&witness);
            let w1 = txin.segwit_weight().to_wu();
            let mut inp = inp;
            inp["script_same"] = json!(false);
            if let Some(sref) = static_script {
                if &inp["script"] == sref {
                    inp["script"] = json!([]);
                    inp["script_same"] = json!(true);
                }
            }
            out["inp"] = inp;
            out["raw"] = json!({"ssig": crate::uni::hex(script_sig.as_bytes()), "wit": witness.iter().map(|x| crate::uni::hex(x)).collect::<Vec<_>>()});
            out["real_weight"] = json!(w1 - w0);
            out["real_wit_bytes"] = json!(crate::input::wit_size(&witness));
            out["real_ssig_bytes"] = json!(script_sig.len());
        }
    }
    if !plan_info.is_null() {
        out["plan"] = plan_info;
    }
    out
}

pub fn run_case(u: &Universe, case: &Value, routes: &[&str]) -> Vec<Value> {
    let ctx = case["ctx"].as_str().unwrap();
    let ast = &case["ast"];
    let ms_str = ast_to_string(u, ast, ctx);
    let worlds: Vec<World> = case["worlds"].as_array().unwrap().iter().map(World::from_json).collect();
    let mut evs = vec![];
    for wrap in case["wraps"].as_array().unwrap() {
        let wrap = wrap.as_str().unwrap();
        let ds = desc_text(u, wrap, ast, ctx);
        let _ = &ms_str;
        let mut ev = json!({
            "id": format!("{}:{}", case["id"], wrap),
            "ev": "sat", "ctx": ctx, "wrap": wrap, "ast": ast, "abs": ast_to_abs(ast),
        });
        let parsed = catch_unwind(|| Desc::from_str(&ds));
        match parsed {
            Err(p) => {
                ev["parse"] = json!("panic");
                ev["msg"] = json!(panic_msg(p));
                ev["res"] = json!([]);
            }
            Ok(Err(e)) => {
                ev["parse"] = json!("err");
                ev["msg"] = json!(e.to_string());
                ev["res"] = json!([]);
            }
            Ok(Ok(d)) => {
                ev["parse"] = json!("ok");
                ev["st"] = desc_static(u, &d);
                let mut res = vec![];
                for w in &worlds {
                    for mode in ["nonmall", "mall"] {
                        for route in routes {
                            let mut r1 = one_result(u, &d, w, mode, route, Some(&ev["st"]["script"]));
                            if let Some(o) = r1.as_object_mut() {
                                o.remove("raw");
                            }
                            res.push(r1);
                        }
                    }
                }
                ev["res"] = json!(res);
            }
        }
        evs.push(ev);
    }
    evs
}
