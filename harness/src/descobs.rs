//! `desc` (C16): scriptPubKey / address / explicit script / scriptSig / script code of
//! descriptors over key expressions (single, xpub +- origin/path/wildcard, multipath), compared
//! with independent BIP32 derivation and rust-bitcoin encodings. Facts only; judged by
//! Trace_Desc.tla.

use std::panic::{catch_unwind, AssertUnwindSafe};
use std::str::FromStr;

use bitcoin::bip32::{ChildNumber, DerivationPath, Xpriv, Xpub};
use bitcoin::hashes::{hash160, sha256, Hash};
use bitcoin::key::TapTweak;
use bitcoin::secp256k1::PublicKey;
use bitcoin::{Address, Network, ScriptBuf};
use miniscript::descriptor::DescriptorPublicKey;
use miniscript::Descriptor;
use serde_json::{json, Value};

use crate::alpha;
use crate::uni::Universe;

struct KeyExpr {
    /// text of the key expression (per multipath alternative when selected)
    text: String,
    /// text with alternative j selected (for multipath forms), else same as text
    alts: Vec<String>,
    /// independently derived public key at (alternative 0, index idx) when derivable
    derived: Option<PublicKey>,
}

fn master(u: &Universe, j: usize) -> (Xpriv, Xpub) {
    let seed = bitcoin::hashes::sha256::Hash::hash(format!("msverif xprv {}", j).as_bytes());
    let xprv = Xpriv::new_master(Network::Bitcoin, seed.as_byte_array()).unwrap();
    let xpub = Xpub::from_priv(&u.secp, &xprv);
    (xprv, xpub)
}

fn derive(u: &Universe, xpub: &Xpub, path: &[u32]) -> PublicKey {
    let p: Vec<ChildNumber> = path.iter().map(|i| ChildNumber::from_normal_idx(*i).unwrap()).collect();
    xpub.derive_pub(&u.secp, &DerivationPath::from(p)).unwrap().public_key
}

fn key_expr(u: &Universe, j: usize, form: &str, idx: Option<u32>) -> KeyExpr {
    let (xprv, xpub) = master(u, j);
    let one = |t: String, d: Option<PublicKey>| KeyExpr { text: t.clone(), alts: vec![t], derived: d };
    match form {
        "single" => one(format!("{}", u.pks[j]), Some(u.pks[j])),
        "xpub" => one(format!("{}", xpub), Some(xpub.public_key)),
        "xpub_path" => one(format!("{}/0/{}", xpub, j), Some(derive(u, &xpub, &[0, j as u32]))),
        "xpub_wild" => one(format!("{}/{}/*", xpub, j), idx.map(|i| derive(u, &xpub, &[j as u32, i]))),
        "origin_wild" => {
            // origin: fingerprint of the master, hardened path 44'/j'; the xpub is the child at that path
            let hp: Vec<ChildNumber> = vec![ChildNumber::from_hardened_idx(44).unwrap(), ChildNumber::from_hardened_idx(j as u32).unwrap()];
            let child_prv = xprv.derive_priv(&u.secp, &DerivationPath::from(hp)).unwrap();
            let child_pub = Xpub::from_priv(&u.secp, &child_prv);
            one(
                format!("[{}/44'/{}']{}/1/*", xprv.fingerprint(&u.secp), j, child_pub),
                idx.map(|i| derive(u, &child_pub, &[1, i])),
            )
        }
        "hardened_wild" => one(format!("{}/{}/*'", xpub, j), None),
        "multipath2" | "multipath3" => {
            let alts: Vec<u32> = if form == "multipath2" { vec![0, 1] } else { vec![0, 1, 2] };
            let inner: Vec<String> = alts.iter().map(|a| a.to_string()).collect();
            KeyExpr {
                text: format!("{}/<{}>/*", xpub, inner.join(";")),
                alts: alts.iter().map(|a| format!("{}/{}/*", xpub, a)).collect(),
                derived: None,
            }
        }
        _ => panic!("bad key form"),
    }
}

pub fn wrap_text(wrap: &str, k: &[String]) -> String {
    match wrap {
        "bare_pk" => format!("pk({})", k[0]),
        "bare_multi" => format!("multi(1,{},{})", k[0], k[1]),
        "pkh" => format!("pkh({})", k[0]),
        "wpkh" => format!("wpkh({})", k[0]),
        "shwpkh" => format!("sh(wpkh({}))", k[0]),
        "sh_multi" => format!("sh(multi(2,{},{},{}))", k[0], k[1], k[2]),
        "sh_sortedmulti" => format!("sh(sortedmulti(2,{},{},{}))", k[0], k[1], k[2]),
        "wsh_multi" => format!("wsh(multi(2,{},{},{}))", k[0], k[1], k[2]),
        "wsh_sortedmulti" => format!("wsh(sortedmulti(2,{},{},{}))", k[0], k[1], k[2]),
        "wsh_andv" => format!("wsh(and_v(v:pk({}),pk({})))", k[0], k[1]),
        "shwsh_multi" => format!("sh(wsh(multi(2,{},{})))", k[0], k[1]),
        "shwsh_sortedmulti" => format!("sh(wsh(sortedmulti(2,{},{},{})))", k[0], k[1], k[2]),
        "tr_key" => format!("tr({})", k[0]),
        "tr_tree" => format!("tr({},{{pk({}),pk({})}})", k[0], k[1], k[2]),
        "tr_sortedmulti_a" => format!("tr({},sortedmulti_a(2,{},{}))", k[0], k[1], k[2]),
        _ => panic!("bad wrap"),
    }
}

/// text of key expression j in the given form (as written into descriptors)
pub fn key_text(u: &Universe, j: usize, form: &str) -> String { key_expr(u, j, form, None).text }

/// the secret-key expression corresponding to `key_text` (same origin, path and wildcard)
pub fn secret_key_text(u: &Universe, j: usize, form: &str) -> Option<String> {
    let (xprv, _) = master(u, j);
    Some(match form {
        "single" => bitcoin::PrivateKey::new(u.sks[j], Network::Bitcoin).to_wif(),
        "xpub" => format!("{}", xprv),
        "xpub_path" => format!("{}/0/{}", xprv, j),
        "xpub_wild" => format!("{}/{}/*", xprv, j),
        "origin_wild" => {
            let hp: Vec<ChildNumber> = vec![ChildNumber::from_hardened_idx(44).unwrap(), ChildNumber::from_hardened_idx(j as u32).unwrap()];
            let child_prv = xprv.derive_priv(&u.secp, &DerivationPath::from(hp)).unwrap();
            format!("[{}/44'/{}']{}/1/*", xprv.fingerprint(&u.secp), j, child_prv)
        }
        "hardened_wild" => format!("{}/{}/*'", xprv, j),
        "multipath2" => format!("{}/<0;1>/*", xprv),
        "multipath3" => format!("{}/<0;1;2>/*", xprv),
        _ => return None,
    })
}

fn template(spk: &[u8]) -> &'static str {
    if spk.len() == 25 && spk[0] == 0x76 && spk[1] == 0xa9 && spk[2] == 0x14 && spk[23] == 0x88 && spk[24] == 0xac {
        "p2pkh"
    } else if spk.len() == 23 && spk[0] == 0xa9 && spk[1] == 0x14 && spk[22] == 0x87 {
        "p2sh"
    } else if spk.len() == 22 && spk[0] == 0 && spk[1] == 0x14 {
        "p2wpkh"
    } else if spk.len() == 34 && spk[0] == 0 && spk[1] == 0x20 {
        "p2wsh"
    } else if spk.len() == 34 && spk[0] == 0x51 && spk[1] == 0x20 {
        "p2tr"
    } else {
        "bare"
    }
}

fn p2pkh(h: &[u8]) -> Vec<u8> {
    let mut v = vec![0x76, 0xa9, 0x14];
    v.extend_from_slice(h);
    v.extend_from_slice(&[0x88, 0xac]);
    v
}

fn net_of(s: &str) -> Network {
    match s {
        "bitcoin" => Network::Bitcoin,
        "testnet" => Network::Testnet,
        "signet" => Network::Signet,
        _ => Network::Regtest,
    }
}

pub fn run_case(u: &Universe, case: &Value) -> Vec<Value> {
    let wrap = case["wrap"].as_str().unwrap();
    let forms: Vec<String> = case["forms"].as_array().unwrap().iter().map(|x| x.as_str().unwrap().to_string()).collect();
    let perm: Vec<usize> = case["perm"].as_array().unwrap().iter().map(|x| x.as_u64().unwrap() as usize).collect();
    let net = net_of(case["net"].as_str().unwrap());
    let idx_s = case["idx"].as_str().unwrap();
    let idx64: u64 = idx_s.parse().unwrap();
    let idx_ok = idx64 < (1u64 << 31);
    let n = forms.len();
    let mut ev = json!({"id": format!("{}", case["id"]), "ev": "desc", "wrap": wrap, "forms": forms, "perm": perm, "net": case["net"], "idx": idx_s,
                        "panic": false, "msg": "", "parsed": false, "derived": false});
    // key j (1-based) uses form forms[j-1]; listed order = perm
    let exprs: Vec<KeyExpr> = (1..=n).map(|j| key_expr(u, j, &forms[j - 1], if idx_ok { Some(idx64 as u32) } else { None })).collect();
    let listed: Vec<String> = perm.iter().map(|p| exprs[*p - 1].text.clone()).collect();
    let text = wrap_text(wrap, &listed);
    let ident: Vec<String> = (0..n).map(|j| exprs[j].text.clone()).collect();
    let text_ident = wrap_text(wrap, &ident);
    let r = catch_unwind(AssertUnwindSafe(|| -> Result<Value, String> {
        let d = Descriptor::<DescriptorPublicKey>::from_str(&text).map_err(|e| e.to_string())?;
        let mut o = json!({"parsed": true, "has_wildcard": d.has_wildcard(), "is_multipath": d.is_multipath()});
        // multipath split
        match d.clone().into_single_descriptors() {
            Ok(v) => {
                o["singles_n"] = json!(v.len());
                let mut all = true;
                for (a, s) in v.iter().enumerate() {
                    let sel: Vec<String> = perm
                        .iter()
                        .map(|p| {
                            let e = &exprs[*p - 1];
                            if e.alts.len() > 1 { e.alts[a.min(e.alts.len() - 1)].clone() } else { e.text.clone() }
                        })
                        .collect();
                    let want = Descriptor::<DescriptorPublicKey>::from_str(&wrap_text(wrap, &sel)).map_err(|e| e.to_string())?;
                    all &= format!("{:#}", want) == format!("{:#}", s) && want == *s;
                }
                o["singles_match"] = json!(all);
            }
            Err(e) => {
                o["singles_n"] = json!(-1);
                o["singles_match"] = json!(false);
                o["msg"] = json!(e.to_string());
            }
        }
        // derivation
        #[allow(deprecated)]
        let def = if d.has_wildcard() {
            if !idx_ok {
                // u32 index >= 2^31 must be refused
                d.at_derivation_index(idx64 as u32).map_err(|e| e.to_string())
            } else {
                d.at_derivation_index(idx64 as u32).map_err(|e| e.to_string())
            }
        } else {
            d.clone().into_definite().map_err(|e| e.to_string())
        };
        let def = match def {
            Ok(x) => x,
            Err(e) => {
                o["derived"] = json!(false);
                o["msg"] = json!(e);
                return Ok(o);
            }
        };
        o["derived"] = json!(true);
        // universe view in which key id j is the independently derived key j
        let all_derived: Option<Vec<PublicKey>> = exprs.iter().map(|e| e.derived).collect();
        let derived = match all_derived {
            Some(v) => v,
            None => {
                o["facts"] = json!({"template": "underivable", "commit_ok": false, "explicit_ops": [], "keys_ok": false, "address_ok": false,
                                    "address_msg": "", "script_code_ok": false, "unsigned_ssig_ok": false, "find_index_ok": false,
                                    "find_index_msg": "", "same_spk_as_identity_order": false});
                return Ok(o);
            }
        };
        let mut u2 = Universe::new();
        for (j, pk) in derived.iter().enumerate() {
            u2.pks[j + 1] = *pk;
            u2.xonly[j + 1] = pk.x_only_public_key().0;
        }
        // keys as listed
        let listed_pks: Vec<PublicKey> = perm.iter().map(|p| derived[*p - 1]).collect();
        // BIP67 rank of key ids (for sortedmulti): ids in listed order positions sorted by bytes
        let mut ids: Vec<usize> = (1..=n).collect();
        ids.sort_by_key(|j| derived[*j - 1].serialize());
        // but the AST is over *listed* positions: position q holds key id perm[q]; Encode uses key ids directly
        o["rank"] = json!(ids);
        let spk = def.script_pubkey();
        let b = spk.as_bytes().to_vec();
        let tpl = template(&b);
        let explicit = def.explicit_script().ok();
        let mut f = json!({"template": tpl});
        // the AST in Trace_Desc is over key ids in listed order 1..n = first listed key is id 1, so
        // name keys by *listed position* for unsorted wraps
        let mut u3 = Universe::new();
        for (q, pk) in listed_pks.iter().enumerate() {
            u3.pks[q + 1] = *pk;
            u3.xonly[q + 1] = pk.x_only_public_key().0;
        }
        let sorted = wrap.contains("sortedmulti");
        let names = if sorted { &u2 } else { &u3 };
        f["explicit_ops"] = json!(explicit.as_ref().map(|s| alpha::script_ops(names, s).unwrap_or_default()).unwrap_or_default());
        // commitments
        let commit_ok = match (tpl, &explicit) {
            ("bare", Some(s)) => s.as_bytes() == &b[..],
            ("p2wsh", Some(s)) => sha256::Hash::hash(s.as_bytes()).to_byte_array()[..] == b[2..34],
            ("p2sh", Some(s)) => {
                if wrap.starts_with("shwsh") {
                    let mut redeem = vec![0x00, 0x20];
                    redeem.extend_from_slice(&sha256::Hash::hash(s.as_bytes()).to_byte_array());
                    hash160::Hash::hash(&redeem).to_byte_array()[..] == b[2..22]
                } else {
                    hash160::Hash::hash(s.as_bytes()).to_byte_array()[..] == b[2..22]
                }
            }
            ("p2sh", None) => {
                // sh(wpkh)
                let mut redeem = vec![0x00, 0x14];
                redeem.extend_from_slice(&hash160::Hash::hash(&listed_pks[0].serialize()).to_byte_array());
                hash160::Hash::hash(&redeem).to_byte_array()[..] == b[2..22]
            }
            ("p2pkh", _) => hash160::Hash::hash(&listed_pks[0].serialize()).to_byte_array()[..] == b[3..23],
            ("p2wpkh", _) => hash160::Hash::hash(&listed_pks[0].serialize()).to_byte_array()[..] == b[2..22],
            ("p2tr", _) => {
                // output key = internal key tweaked with the merkle root of the described tree
                let internal = listed_pks[0].x_only_public_key().0;
                let root = match wrap {
                    "tr_key" => None,
                    "tr_tree" => {
                        let leaf = |pk: &PublicKey| {
                            let mut s = vec![0x20];
                            s.extend_from_slice(&pk.x_only_public_key().0.serialize());
                            s.push(0xac);
                            bitcoin::taproot::TapNodeHash::from(bitcoin::taproot::TapLeafHash::from_script(
                                &ScriptBuf::from_bytes(s),
                                bitcoin::taproot::LeafVersion::TapScript,
                            ))
                        };
                        Some(bitcoin::taproot::TapNodeHash::from_node_hashes(leaf(&listed_pks[1]), leaf(&listed_pks[2])))
                    }
                    _ => {
                        // sortedmulti_a(2, k2, k3): keys sorted by x-only bytes
                        let mut ks = vec![listed_pks[1].x_only_public_key().0, listed_pks[2].x_only_public_key().0];
                        ks.sort_by_key(|k| k.serialize());
                        let mut s = vec![0x20];
                        s.extend_from_slice(&ks[0].serialize());
                        s.push(0xac);
                        s.push(0x20);
                        s.extend_from_slice(&ks[1].serialize());
                        s.push(0xba);
                        s.push(0x52);
                        s.push(0x9c);
                        Some(bitcoin::taproot::TapNodeHash::from(bitcoin::taproot::TapLeafHash::from_script(
                            &ScriptBuf::from_bytes(s),
                            bitcoin::taproot::LeafVersion::TapScript,
                        )))
                    }
                };
                let (tw, _) = internal.tap_tweak(&u.secp, root);
                tw.to_inner().serialize()[..] == b[2..34]
            }
            _ => false,
        };
        f["commit_ok"] = json!(commit_ok);
        f["keys_ok"] = json!(commit_ok);
        // address
        let (aok, amsg) = match def.address(net) {
            Ok(a) => {
                let s = a.to_string();
                match Address::from_str(&s) {
                    Ok(un) => match un.require_network(net) {
                        Ok(ch) => (ch.script_pubkey() == spk, String::new()),
                        // testnet / signet share prefixes: accept if valid for the equivalent network
                        Err(_) => (false, "address not valid for the requested network".to_string()),
                    },
                    Err(e) => (false, e.to_string()),
                }
            }
            Err(e) => (tpl == "bare", e.to_string()),
        };
        f["address_ok"] = json!(aok);
        f["address_msg"] = json!(amsg);
        // script code
        let sc = def.script_code().ok();
        let want_sc: Option<Vec<u8>> = match (tpl, wrap) {
            ("p2tr", _) => None,
            (_, "wpkh") | (_, "shwpkh") => Some(p2pkh(&hash160::Hash::hash(&listed_pks[0].serialize()).to_byte_array())),
            (_, "pkh") => Some(b.clone()),
            _ => explicit.as_ref().map(|s| s.as_bytes().to_vec()),
        };
        f["script_code_ok"] = json!(match (&sc, &want_sc) {
            (Some(a), Some(w)) => a.as_bytes() == &w[..],
            (None, None) => true,
            _ => false,
        });
        // unsigned scriptSig
        let us = def.unsigned_script_sig();
        let want_us: Vec<u8> = if wrap.starts_with("shwsh") {
            let mut v = vec![0x22, 0x00, 0x20];
            v.extend_from_slice(&sha256::Hash::hash(explicit.as_ref().unwrap().as_bytes()).to_byte_array());
            v
        } else if wrap == "shwpkh" {
            let mut v = vec![0x16, 0x00, 0x14];
            v.extend_from_slice(&hash160::Hash::hash(&listed_pks[0].serialize()).to_byte_array());
            v
        } else {
            vec![]
        };
        f["unsigned_ssig_ok"] = json!(us.as_bytes() == &want_us[..]);
        // find_derivation_index_for_spk
        if d.has_wildcard() && idx_ok && !d.is_multipath() {
            let i = idx64 as u32;
            let lo = i.saturating_sub(1);
            let hi = i.saturating_add(2);
            match d.find_derivation_index_for_spk(&u.secp, &spk, lo..hi) {
                Ok(Some((found, _))) => {
                    f["find_index_ok"] = json!(found == i || {
                        // an earlier index may give the same script only if the keys coincide (never here)
                        false
                    });
                    f["find_index_msg"] = json!(format!("found {}", found));
                }
                Ok(None) => {
                    f["find_index_ok"] = json!(false);
                    f["find_index_msg"] = json!("not found");
                }
                Err(e) => {
                    f["find_index_ok"] = json!(false);
                    f["find_index_msg"] = json!(e.to_string());
                }
            }
        } else {
            f["find_index_ok"] = json!(true);
            f["find_index_msg"] = json!("");
        }
        // key order
        #[allow(deprecated)]
        let spk_ident = Descriptor::<DescriptorPublicKey>::from_str(&text_ident)
            .ok()
            .and_then(|di| if di.has_wildcard() { di.at_derivation_index(idx64 as u32).ok() } else { di.into_definite().ok() })
            .map(|x| x.script_pubkey());
        f["same_spk_as_identity_order"] = json!(spk_ident.as_ref() == Some(&spk));
        o["facts"] = f;
        Ok(o)
    }));
    match r {
        Err(_) => {
            ev["panic"] = json!(true);
            ev["msg"] = json!("PANIC");
        }
        Ok(Err(e)) => ev["msg"] = json!(e),
        Ok(Ok(o)) => {
            for (k, v) in o.as_object().unwrap() {
                ev[k] = v.clone();
            }
        }
    }
    // defaults so that TLC finds every field
    for (k, v) in [("has_wildcard", json!(false)), ("is_multipath", json!(false)), ("singles_n", json!(0)), ("singles_match", json!(false)),
                   ("rank", json!([])), ("facts", json!({"template": "", "commit_ok": false, "explicit_ops": [], "keys_ok": false, "address_ok": false,
                   "address_msg": "", "script_code_ok": false, "unsigned_ssig_ok": false, "find_index_ok": false, "find_index_msg": "",
                   "same_spk_as_identity_order": false}))] {
        if ev.get(k).is_none() {
            ev[k] = v;
        }
    }
    vec![ev]
}
