//! `interp` (C13): feed the transaction interpreter with the library's own satisfactions and
//! with systematic mutations of them, under every lock/sequence environment of the case.
//! Mutations are made on the abstract stack and rendered back to bytes (real signatures over
//! the real sighash of the *target* transaction), so the abstract stack the TLA+ VM judges is
//! known exactly.

use std::cell::RefCell;
use std::collections::BTreeMap;
use std::panic::{catch_unwind, AssertUnwindSafe};
use std::str::FromStr;

use bitcoin::hashes::Hash;
use bitcoin::script::{Builder, PushBytesBuf};
use bitcoin::sighash::Prevouts;
use bitcoin::{Amount, EcdsaSighashType, ScriptBuf, TapSighashType, Transaction, TxOut, Witness};
use miniscript::interpreter::{HashLockType, Interpreter, KeySigPair, SatisfiedConstraint};
use miniscript::policy::Liftable;
use miniscript::Descriptor;
use serde_json::{json, Value};

use crate::alpha::{self, ecdsa_msg, schnorr_msg, SigScope, Spend};
use crate::astobs::{hash_id, pol_to_json};
use crate::input::abstract_input;
use crate::sat::{desc_static, wrap_str, Desc, INTERNAL_KEY};
use crate::uni::{ast_to_abs, ast_to_string, preimage, Universe, MAX_KEYS};
use crate::world::{World, WorldSat, PREV_VALUE};

/// inverse of alpha for one element, in the signing scope of the target transaction
pub fn render(u: &Universe, e: &Value, scope: &SigScope, sp: &Spend, other: &Spend) -> Vec<u8> {
    let t = e["t"].as_str().unwrap();
    let k = e["k"].as_i64().unwrap_or(0);
    let q = e["q"].as_str().unwrap_or("");
    match t {
        "e0" => vec![],
        "num" => {
            // minimal script number encoding
            let mut n = k;
            let mut out = vec![];
            while n > 0 {
                out.push((n & 0xff) as u8);
                n >>= 8;
            }
            if out.last().map(|b| b & 0x80 != 0).unwrap_or(false) {
                out.push(0);
            }
            out
        }
        "fz" => vec![0x00],
        "z32" => vec![0u8; 32],
        "j32" => vec![if k == 1 { 0x5a } else { 0x5b }; 32],
        "junk" => {
            if k == 1 {
                vec![0xde, 0xad, 0xbe, 0xef, 0x01]
            } else {
                vec![0xde, 0xad, 0xbe, 0xef, 0x02]
            }
        }
        "pre" => preimage(q, k as usize).to_vec(),
        "key" => match q {
            "c" => u.pks[k as usize].serialize().to_vec(),
            "u" => u.pks[k as usize].serialize_uncompressed().to_vec(),
            _ => u.xonly[k as usize].serialize().to_vec(),
        },
        "sig" => {
            // good: over the target tx; bad: a valid signature by the same key over another tx
            let which = if q == "good" { sp } else { other };
            match scope {
                SigScope::Legacy { .. } | SigScope::SegwitV0 { .. } => {
                    let msg = ecdsa_msg(which, scope, EcdsaSighashType::All).unwrap();
                    let kk = if k == 0 { 1 } else { k as usize };
                    let sig = u.secp.sign_ecdsa(&msg, &u.sks[kk]);
                    bitcoin::ecdsa::Signature { signature: sig, sighash_type: EcdsaSighashType::All }.to_vec()
                }
                _ => {
                    let msg = schnorr_msg(which, scope, TapSighashType::Default).unwrap();
                    let kk = if k == 0 { 1 } else { k as usize };
                    let sig = u.secp.sign_schnorr_no_aux_rand(&msg, &u.keypairs[kk]);
                    bitcoin::taproot::Signature { signature: sig, sighash_type: TapSighashType::Default }.to_vec()
                }
            }
        }
        _ => vec![0xde, 0xad, 0xbe, 0xef, 0x02],
    }
}

fn push_minimal(b: Builder, item: &[u8]) -> Builder {
    if let Ok(n) = bitcoin::script::read_scriptint(item) {
        if item.len() <= 1 {
            return b.push_int(n);
        }
    }
    b.push_slice(PushBytesBuf::try_from(item.to_vec()).unwrap())
}

/// rebuild (scriptSig, witness) of the same shape as the library's satisfaction, with the
/// stack part replaced
fn rebuild(kind: &str, stack: &[Vec<u8>], orig_ssig: &ScriptBuf, orig_wit: &[Vec<u8>]) -> (ScriptBuf, Vec<Vec<u8>>) {
    match kind {
        "bare" | "pkh" => {
            let mut b = Builder::new();
            for it in stack {
                b = push_minimal(b, it);
            }
            (b.into_script(), vec![])
        }
        "sh" => {
            // last push of the original scriptSig is the redeem script
            let pushes = alpha::scriptsig_pushes(orig_ssig).unwrap_or_default();
            let mut b = Builder::new();
            for it in stack {
                b = push_minimal(b, it);
            }
            if let Some(r) = pushes.last() {
                b = b.push_slice(PushBytesBuf::try_from(r.clone()).unwrap());
            }
            (b.into_script(), vec![])
        }
        "wsh" | "shwsh" => {
            let mut w = stack.to_vec();
            w.push(orig_wit.last().cloned().unwrap_or_default());
            (orig_ssig.clone(), w)
        }
        "wpkh" | "shwpkh" | "trkey" => (orig_ssig.clone(), stack.to_vec()),
        "trscript" => {
            let mut w = stack.to_vec();
            let n = orig_wit.len();
            w.push(orig_wit[n - 2].clone());
            w.push(orig_wit[n - 1].clone());
            (orig_ssig.clone(), w)
        }
        _ => (orig_ssig.clone(), orig_wit.to_vec()),
    }
}

fn constraint_json(u: &Universe, c: &SatisfiedConstraint) -> Value {
    let kid = |ks: &KeySigPair| -> i64 {
        match ks {
            KeySigPair::Ecdsa(pk, _) => (1..=MAX_KEYS).find(|&i| u.pks[i] == pk.inner).map(|x| x as i64).unwrap_or(0),
            KeySigPair::Schnorr(xo, _) => (1..=MAX_KEYS).find(|&i| u.xonly[i] == *xo).map(|x| x as i64).unwrap_or(0),
        }
    };
    match c {
        SatisfiedConstraint::PublicKey { key_sig } => json!({"c": "sig", "k": kid(key_sig)}),
        SatisfiedConstraint::PublicKeyHash { key_sig, .. } => json!({"c": "sig", "k": kid(key_sig)}),
        SatisfiedConstraint::HashLock { hash, .. } => match hash {
            HashLockType::Sha256(h) => json!({"c": "sha256", "k": hash_id("sha256", &h.to_byte_array())}),
            HashLockType::Hash256(h) => json!({"c": "hash256", "k": hash_id("hash256", &h.to_byte_array())}),
            HashLockType::Hash160(h) => json!({"c": "hash160", "k": hash_id("hash160", &h.to_byte_array())}),
            HashLockType::Ripemd160(h) => json!({"c": "ripemd160", "k": hash_id("ripemd160", &h.to_byte_array())}),
        },
        SatisfiedConstraint::RelativeTimelock { n } => json!({"c": "older", "k": n.to_consensus_u32()}),
        SatisfiedConstraint::AbsoluteTimelock { n } => json!({"c": "after", "k": n.to_consensus_u32()}),
    }
}

fn mutations(stack: &[Value], keys: &[i64]) -> Vec<(String, Vec<Value>)> {
    let e = |t: &str, k: i64, q: &str| alpha::e(t, k, q);
    let mut out = vec![("id".to_string(), stack.to_vec())];
    let n = stack.len();
    for p in 0..n {
        let mut v = stack.to_vec();
        v.remove(p);
        out.push((format!("drop{}", p), v));
        let mut v = stack.to_vec();
        v.insert(p, stack[p].clone());
        out.push((format!("dup{}", p), v));
        if p + 1 < n {
            let mut v = stack.to_vec();
            v.swap(p, p + 1);
            out.push((format!("swap{}", p), v));
        }
        let mut reps = vec![e("e0", 0, ""), e("num", 1, ""), e("junk", 1, ""), e("j32", 1, ""), e("z32", 0, "")];
        if stack[p]["t"] == "sig" {
            let k = stack[p]["k"].as_i64().unwrap_or(0);
            reps.push(e("sig", k, "bad"));
            for k2 in keys {
                if *k2 != k {
                    reps.push(e("sig", *k2, "good"));
                }
            }
        }
        // an empty dissatisfaction replaced by a real signature: over-satisfaction of thresholds / multisigs
        if stack[p]["t"] == "e0" {
            for k2 in keys {
                reps.push(e("sig", *k2, "good"));
            }
        }
        for (ri, r) in reps.into_iter().enumerate() {
            if r != stack[p] {
                let mut v = stack.to_vec();
                v[p] = r;
                out.push((format!("rep{}_{}", p, ri), v));
            }
        }
    }
    // extra element on top / at bottom
    for (nm, x) in [("e0", e("e0", 0, "")), ("e1", e("num", 1, "")), ("junk", e("junk", 1, ""))] {
        let mut v = stack.to_vec();
        v.push(x.clone());
        out.push((format!("top_{}", nm), v));
        let mut v = stack.to_vec();
        v.insert(0, x);
        out.push((format!("bottom_{}", nm), v));
    }
    out
}

fn scope_for(inp_kind: &str, d: &Desc, script: &ScriptBuf, value: Amount) -> SigScope {
    match inp_kind {
        "bare" | "pkh" | "sh" => SigScope::Legacy { script_code: d.script_code().unwrap() },
        "wsh" | "shwsh" | "wpkh" | "shwpkh" => SigScope::SegwitV0 { script_code: d.script_code().unwrap(), value },
        "trscript" => SigScope::TapLeaf {
            leaf_hash: bitcoin::taproot::TapLeafHash::from_script(script, bitcoin::taproot::LeafVersion::TapScript),
        },
        _ => SigScope::TapKey,
    }
}

pub fn run_interp(u: &Universe, tx: &Transaction, prevout: &TxOut, ssig: &ScriptBuf, wit: &[Vec<u8>]) -> Value {
    let witness = Witness::from_slice(wit);
    let r = catch_unwind(AssertUnwindSafe(|| -> Value {
        let spk = prevout.script_pubkey.clone();
        let interp = match Interpreter::from_txdata(&spk, ssig, &witness, tx.input[0].sequence, tx.lock_time) {
            Ok(i) => i,
            Err(e) => return json!({"ok": false, "stage": "from_txdata", "err": e.to_string(), "cons": []}),
        };
        let prevs = [prevout.clone()];
        let prevouts = Prevouts::All(&prevs);
        let mut cons = vec![];
        for c in interp.iter(&u.secp, tx, 0, &prevouts) {
            match c {
                Ok(c) => cons.push(constraint_json(u, &c)),
                Err(e) => return json!({"ok": false, "stage": "iter", "err": e.to_string(), "cons": cons}),
            }
        }
        json!({"ok": true, "stage": "", "err": "", "cons": cons})
    }));
    r.unwrap_or_else(|_| json!({"ok": false, "stage": "PANIC", "err": "PANIC", "cons": []}))
}

pub fn run_case(u: &Universe, case: &Value) -> Vec<Value> {
    let ctx = case["ctx"].as_str().unwrap();
    let ast = &case["ast"];
    let ms_str = ast_to_string(u, ast, ctx);
    let worlds: Vec<World> = case["worlds"].as_array().unwrap().iter().map(World::from_json).collect();
    // distinct environments
    let mut envs: Vec<World> = vec![];
    for w in &worlds {
        if !envs.iter().any(|e| e.lock == w.lock && e.seq == w.seq && e.ver == w.ver) {
            envs.push(w.clone());
        }
    }
    let mut keys: Vec<i64> = vec![];
    fn collect_keys(a: &Value, out: &mut Vec<i64>) {
        if a["f"] == "pk_k" || a["f"] == "pk_h" {
            out.push(a["n"].as_i64().unwrap());
        }
        if let Some(ks) = a["ks"].as_array() {
            for k in ks {
                out.push(k.as_i64().unwrap());
            }
        }
        if let Some(xs) = a["xs"].as_array() {
            for x in xs {
                collect_keys(x, out);
            }
        }
    }
    collect_keys(ast, &mut keys);
    keys.sort();
    keys.dedup();
    let mut evs = vec![];
    for wrap in case["wraps"].as_array().unwrap() {
        let wrap = wrap.as_str().unwrap();
        let ds = crate::sat::desc_text(u, wrap, ast, ctx);
        let _ = &ms_str;
        let d = match catch_unwind(|| Desc::from_str(&ds)) {
            Ok(Ok(d)) => d,
            _ => continue,
        };
        let st = desc_static(u, &d);
        let sane = st["ms"]["sane"].as_bool().unwrap_or(false);
        let lift = match d.lift() {
            Ok(p) => json!({"ok": true, "pol": pol_to_json(u, &p)}),
            Err(_) => json!({"ok": false, "pol": {"p": "unsat", "n": 0, "xs": []}}),
        };
        let mut ev = json!({
            "id": format!("{}:{}", case["id"], wrap), "ev": "interp", "ctx": ctx, "wrap": wrap, "ast": ast,
            "abs": ast_to_abs(ast), "sane": sane, "script": st["script"], "lift": lift,
        });
        let mut runs = vec![];
        let mut seen_stacks: Vec<Vec<Value>> = vec![];
        for w in &worlds {
            let tx = w.tx();
            let prevout = TxOut { value: Amount::from_sat(PREV_VALUE), script_pubkey: d.script_pubkey() };
            let sat = WorldSat {
                u, w, tx: &tx, prevout: &prevout,
                ecdsa_scope: match &d {
                    Descriptor::Tr(_) => SigScope::None,
                    Descriptor::Wsh(_) | Descriptor::Wpkh(_) => SigScope::SegwitV0 { script_code: d.script_code().unwrap(), value: prevout.value },
                    Descriptor::Sh(sh) => match sh.as_inner() {
                        miniscript::descriptor::ShInner::Ms(_) => SigScope::Legacy { script_code: d.script_code().unwrap() },
                        _ => SigScope::SegwitV0 { script_code: d.script_code().unwrap(), value: prevout.value },
                    },
                    _ => SigScope::Legacy { script_code: d.script_code().unwrap() },
                },
                internal_key: Some(INTERNAL_KEY),
                cache: RefCell::new(BTreeMap::new()),
            };
            for mode in ["nonmall", "mall"] {
                let r = catch_unwind(AssertUnwindSafe(|| {
                    if mode == "nonmall" { d.get_satisfaction(&sat) } else { d.get_satisfaction_mall(&sat) }
                }));
                let (wit, ssig) = match r {
                    Ok(Ok(x)) => x,
                    _ => continue,
                };
                let inp = abstract_input(u, &tx, &prevout, &ssig, &wit);
                let kind = inp["kind"].as_str().unwrap().to_string();
                let stack: Vec<Value> = inp["stack"].as_array().cloned().unwrap_or_default();
                // (a) the library's own satisfaction, unmodified bytes
                let res = run_interp(u, &tx, &prevout, &ssig, &wit);
                runs.push(json!({"src": "lib", "mode": mode, "mut": "id", "w": w.json, "kind": kind, "facts": inp["facts"],
                                 "stack": stack, "script_len": inp["script_len"], "res": res}));
                // (b) mutations x environments, once per distinct abstract stack
                if seen_stacks.contains(&stack) {
                    continue;
                }
                seen_stacks.push(stack.clone());
                let script_bytes = match kind.as_str() {
                    "trscript" => ScriptBuf::from_bytes(wit[wit.len() - 2].clone()),
                    _ => ScriptBuf::new(),
                };
                for env in &envs {
                    let tx2 = env.tx();
                    let mut other_w = env.clone();
                    other_w.lock = other_w.lock.wrapping_add(7);
                    let tx_other = other_w.tx();
                    let sp = Spend::single(&tx2, &prevout);
                    let sp_other = Spend::single(&tx_other, &prevout);
                    let scope = scope_for(&kind, &d, &script_bytes, prevout.value);
                    for (name, ms) in mutations(&stack, &keys) {
                        let items: Vec<Vec<u8>> = ms.iter().map(|e| render(u, e, &scope, &sp, &sp_other)).collect();
                        let (ssig2, wit2) = rebuild(&kind, &items, &ssig, &wit);
                        let res = run_interp(u, &tx2, &prevout, &ssig2, &wit2);
                        // facts of the rebuilt input (commitments etc.) come from alpha again
                        let inp2 = abstract_input(u, &tx2, &prevout, &ssig2, &wit2);
                        runs.push(json!({"src": "mut", "mode": mode, "mut": name, "w": env.json, "kind": inp2["kind"],
                                         "facts": inp2["facts"], "stack": inp2["stack"], "want": ms,
                                         "script_len": inp2["script_len"], "res": res}));
                    }
                }
            }
        }
        ev["runs"] = json!(runs);
        evs.push(ev);
    }
    evs
}
