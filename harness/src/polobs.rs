//! `policy` (C18): transformations of abstract and concrete policies.

use std::panic::{catch_unwind, AssertUnwindSafe};
use std::sync::Arc;

use bitcoin::hashes::Hash;
use bitcoin::{absolute, relative, Sequence};
use miniscript::policy::{Concrete, Liftable, Semantic};
use miniscript::{AbsLockTime, RelLockTime, Threshold};
use serde_json::{json, Value};

use crate::astobs::pol_to_json;
use crate::uni::{hash_bytes, preimage, Universe};

type Pk = String;

fn key_name(k: i64) -> String { format!("K{}", k) }

pub fn pol_to_json_s(p: &Semantic<Pk>) -> Value {
    let l = |p: &str, n: i64| json!({"p": p, "n": n, "xs": []});
    let kid = |k: &String| k[1..].parse::<i64>().unwrap_or(0);
    let hid = |kind: &str, d: &[u8]| crate::astobs::hash_id(kind, d);
    match p {
        Semantic::Unsatisfiable => l("unsat", 0),
        Semantic::Trivial => l("trivial", 0),
        Semantic::Key(k) => l("key", kid(k)),
        Semantic::After(t) => l("after", absolute::LockTime::from(*t).to_consensus_u32() as i64),
        Semantic::Older(t) => l("older", t.to_consensus_u32() as i64),
        Semantic::Sha256(h) => l("sha256", hid("sha256", &hexb(h))),
        Semantic::Hash256(h) => l("hash256", hid("hash256", &hexb(h))),
        Semantic::Ripemd160(h) => l("ripemd160", hid("ripemd160", &hexb(h))),
        Semantic::Hash160(h) => l("hash160", hid("hash160", &hexb(h))),
        Semantic::Thresh(t) => json!({"p": "thresh", "n": t.k(), "xs": t.iter().map(|x| pol_to_json_s(x)).collect::<Vec<_>>()}),
    }
}

fn hexb(s: &String) -> Vec<u8> {
    (0..s.len() / 2).map(|i| u8::from_str_radix(&s[2 * i..2 * i + 2], 16).unwrap_or(0)).collect()
}

fn hash_hex(kind: &str, id: i64) -> String { crate::uni::hex(&hash_bytes(kind, &preimage(kind, id as usize))) }

fn sem_of(j: &Value) -> Result<Semantic<Pk>, String> {
    let p = j["p"].as_str().unwrap();
    let n = j["n"].as_i64().unwrap_or(0);
    Ok(match p {
        "unsat" => Semantic::Unsatisfiable,
        "trivial" => Semantic::Trivial,
        "key" => Semantic::Key(key_name(n)),
        "after" => Semantic::After(AbsLockTime::from_consensus(n as u32).map_err(|e| e.to_string())?),
        "older" => Semantic::Older(RelLockTime::from_consensus(n as u32).map_err(|e| e.to_string())?),
        "sha256" => Semantic::Sha256(hash_hex(p, n)),
        "hash256" => Semantic::Hash256(hash_hex(p, n)),
        "ripemd160" => Semantic::Ripemd160(hash_hex(p, n)),
        "hash160" => Semantic::Hash160(hash_hex(p, n)),
        "thresh" => {
            let mut subs = vec![];
            for x in j["xs"].as_array().unwrap() {
                subs.push(Arc::new(sem_of(x)?));
            }
            Semantic::Thresh(Threshold::new(n as usize, subs).map_err(|e| e.to_string())?)
        }
        _ => return Err(format!("bad semantic node {}", p)),
    })
}

fn conc_of(j: &Value) -> Result<Concrete<Pk>, String> {
    let p = j["p"].as_str().unwrap();
    let n = j["n"].as_i64().unwrap_or(0);
    let kids = |j: &Value| -> Result<Vec<Arc<Concrete<Pk>>>, String> {
        let mut subs = vec![];
        for x in j["xs"].as_array().unwrap() {
            subs.push(Arc::new(conc_of(x)?));
        }
        Ok(subs)
    };
    Ok(match p {
        "unsat" => Concrete::Unsatisfiable,
        "trivial" => Concrete::Trivial,
        "key" => Concrete::Key(key_name(n)),
        "after" => Concrete::After(AbsLockTime::from_consensus(n as u32).map_err(|e| e.to_string())?),
        "older" => Concrete::Older(RelLockTime::from_consensus(n as u32).map_err(|e| e.to_string())?),
        "sha256" => Concrete::Sha256(hash_hex(p, n)),
        "hash256" => Concrete::Hash256(hash_hex(p, n)),
        "ripemd160" => Concrete::Ripemd160(hash_hex(p, n)),
        "hash160" => Concrete::Hash160(hash_hex(p, n)),
        "and" => Concrete::And(kids(j)?),
        "or" => Concrete::Or(kids(j)?.into_iter().enumerate().map(|(i, x)| (1 + 2 * i, x)).collect()),
        "thresh" => Concrete::Thresh(Threshold::new(n as usize, kids(j)?).map_err(|e| e.to_string())?),
        _ => return Err(format!("bad concrete node {}", p)),
    })
}

fn guard_pol<F: FnOnce() -> Semantic<Pk>>(f: F) -> Value {
    match catch_unwind(AssertUnwindSafe(f)) {
        Ok(p) => json!({"st": "ok", "pol": pol_to_json_s(&p)}),
        Err(_) => json!({"st": "panic", "pol": {"p": "unsat", "n": 0, "xs": []}}),
    }
}

const AGES: [u32; 5] = [5, 10, 15, 4194314, 4194319];
const TIMES: [u32; 6] = [99, 100, 150, 500000099, 500000100, 500000150];

pub fn run_case(_u: &Universe, case: &Value) -> Vec<Value> {
    let kind = case["kind"].as_str().unwrap();
    let mut ev = json!({"id": format!("{}", case["id"]), "ev": "policy", "kind": kind, "pol": case["pol"]});
    match kind {
        "sem" => match sem_of(&case["pol"]) {
            Err(e) => {
                ev["built"] = json!(false);
                ev["why"] = json!(e);
            }
            Ok(p) => {
                ev["built"] = json!(true);
                ev["why"] = json!("");
                ev["normalized"] = guard_pol(|| p.clone().normalized());
                ev["sorted"] = guard_pol(|| p.clone().sorted());
                ev["n_keys"] = json!(catch_unwind(AssertUnwindSafe(|| p.n_keys() as i64)).unwrap_or(-2));
                ev["min_keys"] = json!(catch_unwind(AssertUnwindSafe(|| p.minimum_n_keys().map(|x| x as i64).unwrap_or(-1))).unwrap_or(-2));
                ev["at_age"] = json!(AGES.iter().map(|a| {
                    let mut r = guard_pol(|| p.clone().at_age(Sequence(*a).to_relative_lock_time().unwrap()));
                    r["v"] = json!(*a);
                    r
                }).collect::<Vec<_>>());
                ev["at_lock"] = json!(TIMES.iter().map(|t| {
                    let mut r = guard_pol(|| p.clone().at_lock_time(absolute::LockTime::from_consensus(*t)));
                    r["v"] = json!(*t);
                    r
                }).collect::<Vec<_>>());
            }
        },
        "entails" => {
            let a = sem_of(&case["pol"]);
            ev["bs"] = case["bs"].clone();
            let mut res = vec![];
            for bj in case["bs"].as_array().unwrap() {
                let r = match (&a, sem_of(bj)) {
                    (Ok(a), Ok(b)) => match catch_unwind(AssertUnwindSafe(|| a.clone().entails(b))) {
                        Ok(Some(true)) => "true",
                        Ok(Some(false)) => "false",
                        Ok(None) => "none",
                        Err(_) => "panic",
                    },
                    _ => "skip",
                };
                res.push(r);
            }
            ev["res"] = json!(res);
        }
        "conc" => match conc_of(&case["pol"]) {
            Err(e) => {
                ev["built"] = json!(false);
                ev["why"] = json!(e);
            }
            Ok(c) => {
                ev["built"] = json!(true);
                ev["why"] = json!("");
                ev["lift"] = match catch_unwind(AssertUnwindSafe(|| c.lift())) {
                    Ok(Ok(p)) => json!({"st": "ok", "pol": pol_to_json_s(&p), "why": ""}),
                    Ok(Err(e)) => json!({"st": "err", "pol": {"p": "unsat", "n": 0, "xs": []}, "why": e.to_string()}),
                    Err(_) => json!({"st": "panic", "pol": {"p": "unsat", "n": 0, "xs": []}, "why": "PANIC"}),
                };
                ev["timelocks_st"] = json!(match catch_unwind(AssertUnwindSafe(|| c.check_timelocks())) {
                    Ok(Ok(())) => "clean",
                    Ok(Err(_)) => "mixed",
                    Err(_) => "panic",
                });
                match catch_unwind(AssertUnwindSafe(|| c.is_safe_nonmalleable())) {
                    Ok((s, m)) => {
                        ev["safe_st"] = json!("ok");
                        ev["safe"] = json!(s);
                        ev["nonmall"] = json!(m);
                    }
                    Err(_) => {
                        ev["safe_st"] = json!("panic");
                        ev["safe"] = json!(false);
                        ev["nonmall"] = json!(false);
                    }
                }
            }
        },
        _ => panic!("bad policy case kind"),
    }
    vec![ev]
}

#[allow(dead_code)]
fn _u(_: relative::LockTime) { let _ = pol_to_json; let _ = bitcoin::hashes::sha256::Hash::all_zeros(); }
