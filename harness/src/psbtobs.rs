//! `psbt` (C14): replay operation histories into a real multi-input PSBT, projecting it to
//! the abstract state of Psbt.tla after every step.

use std::collections::BTreeMap;
use std::panic::{catch_unwind, AssertUnwindSafe};
use std::str::FromStr;

use bitcoin::hashes::{hash160, ripemd160, sha256, Hash};
use bitcoin::psbt::Psbt;
use bitcoin::sighash::SighashCache;
use bitcoin::taproot::{LeafVersion, TapLeafHash};
use bitcoin::{
    absolute, transaction, Amount, EcdsaSighashType, OutPoint, ScriptBuf, Sequence, TapSighashType, Transaction, TxIn,
    TxOut, Txid, Witness,
};
use miniscript::psbt::{PsbtExt, PsbtSighashMsg};
use miniscript::{hash256, Descriptor};
use serde_json::{json, Value};

use crate::input::abstract_input;
use crate::sat::{wrap_str, Desc, INTERNAL_KEY};
use crate::uni::{ast_to_abs, ast_to_string, hash_bytes, preimage, Universe};
use crate::world::seq_from_json;

struct Ctx<'a> {
    u: &'a Universe,
    descs: Vec<Desc>,
    asts: Vec<Value>,
    ctxs: Vec<String>,
}

fn keys_of(a: &Value, out: &mut Vec<usize>) {
    if a["f"] == "pk_k" || a["f"] == "pk_h" {
        out.push(a["n"].as_u64().unwrap() as usize);
    }
    if let Some(ks) = a["ks"].as_array() {
        for k in ks {
            out.push(k.as_u64().unwrap() as usize);
        }
    }
    if let Some(xs) = a["xs"].as_array() {
        for x in xs {
            keys_of(x, out);
        }
    }
}

fn new_psbt(c: &Ctx, env: &Value) -> Psbt {
    let n = c.descs.len();
    let tx = Transaction {
        version: transaction::Version(env["ver"].as_i64().unwrap_or(2) as i32),
        lock_time: absolute::LockTime::from_consensus(env["lock"].as_u64().unwrap_or(0) as u32),
        input: (0..n)
            .map(|i| TxIn {
                previous_output: OutPoint { txid: Txid::from_byte_array([9u8 + i as u8; 32]), vout: 0 },
                script_sig: ScriptBuf::new(),
                sequence: Sequence(seq_from_json(&env["seq"])),
                witness: Witness::new(),
            })
            .collect(),
        output: vec![TxOut { value: Amount::from_sat(50_000), script_pubkey: ScriptBuf::from_bytes(vec![0x51]) }],
    };
    let mut psbt = Psbt::from_unsigned_tx(tx).unwrap();
    for i in 0..n {
        let utxo = TxOut { value: Amount::from_sat(100_000), script_pubkey: c.descs[i].script_pubkey() };
        // legacy inputs carry the whole previous transaction
        // the spent output is NOT at the position of the input: a decoy output (paying to the
        // descriptor of another input, if any) sits in front of it, so vout = 1 for every legacy input
        let decoy = TxOut { value: Amount::from_sat(70_000), script_pubkey: c.descs[(i + 1) % n].script_pubkey() };
        let prev = Transaction {
            version: transaction::Version(2),
            lock_time: absolute::LockTime::ZERO,
            input: vec![],
            output: vec![decoy, utxo.clone()],
        };
        match &c.descs[i] {
            Descriptor::Bare(_) | Descriptor::Pkh(_) => {
                psbt.inputs[i].non_witness_utxo = Some(prev.clone());
                psbt.unsigned_tx.input[i].previous_output = OutPoint { txid: prev.compute_txid(), vout: 1 };
            }
            Descriptor::Sh(sh) if matches!(sh.as_inner(), miniscript::descriptor::ShInner::Ms(_)) => {
                psbt.inputs[i].non_witness_utxo = Some(prev.clone());
                psbt.unsigned_tx.input[i].previous_output = OutPoint { txid: prev.compute_txid(), vout: 1 };
            }
            _ => psbt.inputs[i].witness_utxo = Some(utxo),
        }
    }
    psbt
}

fn add_sig(c: &Ctx, psbt: &mut Psbt, i: usize, k: usize) -> Result<(), String> {
    let tx = psbt.unsigned_tx.clone();
    let mut cache = SighashCache::new(&tx);
    match &c.descs[i] {
        Descriptor::Tr(tr) => {
            if k == INTERNAL_KEY {
                let msg = psbt.sighash_msg(i, &mut cache, None).map_err(|e| e.to_string())?;
                let m = msg.to_secp_msg();
                // key-path: tweak the key pair with the merkle root recorded by update (or computed here)
                let spend = tr.spend_info();
                let kp = c.u.keypairs[k];
                let tweaked = bitcoin::key::TapTweak::tap_tweak(kp, &c.u.secp, spend.merkle_root());
                let sig = c.u.secp.sign_schnorr_no_aux_rand(&m, &tweaked.to_inner());
                psbt.inputs[i].tap_key_sig = Some(bitcoin::taproot::Signature { signature: sig, sighash_type: TapSighashType::Default });
            } else {
                for leaf in tr.leaves() {
                    let lh = TapLeafHash::from_script(&leaf.compute_script(), LeafVersion::TapScript);
                    let msg = psbt.sighash_msg(i, &mut cache, Some(lh)).map_err(|e| e.to_string())?;
                    let sig = c.u.secp.sign_schnorr_no_aux_rand(&msg.to_secp_msg(), &c.u.keypairs[k]);
                    psbt.inputs[i].tap_script_sigs.insert(
                        (c.u.xonly[k], lh),
                        bitcoin::taproot::Signature { signature: sig, sighash_type: TapSighashType::Default },
                    );
                }
            }
        }
        _ => {
            let msg = psbt.sighash_msg(i, &mut cache, None).map_err(|e| e.to_string())?;
            if let PsbtSighashMsg::TapSighash(_) = msg {
                return Err("unexpected tap sighash".into());
            }
            let sig = c.u.secp.sign_ecdsa(&msg.to_secp_msg(), &c.u.sks[k]);
            psbt.inputs[i].partial_sigs.insert(
                bitcoin::PublicKey::new(c.u.pks[k]),
                bitcoin::ecdsa::Signature { signature: sig, sighash_type: EcdsaSighashType::All },
            );
        }
    }
    Ok(())
}

fn add_pre(psbt: &mut Psbt, i: usize, kind: &str, id: usize) {
    let pre = preimage(kind, id).to_vec();
    let d = hash_bytes(kind, &pre);
    match kind {
        "sha256" => {
            psbt.inputs[i].sha256_preimages.insert(sha256::Hash::from_slice(&d).unwrap(), pre);
        }
        "hash256" => {
            psbt.inputs[i].hash256_preimages.insert(bitcoin::hashes::sha256d::Hash::from_slice(&d).unwrap(), pre);
        }
        "ripemd160" => {
            psbt.inputs[i].ripemd160_preimages.insert(ripemd160::Hash::from_slice(&d).unwrap(), pre);
        }
        _ => {
            psbt.inputs[i].hash160_preimages.insert(hash160::Hash::from_slice(&d).unwrap(), pre);
        }
    }
}

/// is the metadata recorded by update consistent with the output (checked with rust-bitcoin only)
fn update_consistent(c: &Ctx, psbt: &Psbt, i: usize) -> Value {
    let inp = &psbt.inputs[i];
    let spk = c.descs[i].script_pubkey();
    let b = spk.as_bytes();
    let mut ok = true;
    let mut present = false;
    if let Some(ws) = &inp.witness_script {
        present = true;
        let h = sha256::Hash::hash(ws.as_bytes()).to_byte_array();
        // native or nested
        if b.len() == 34 && b[0] == 0 {
            ok &= h[..] == b[2..34];
        } else if let Some(rs) = &inp.redeem_script {
            ok &= rs.as_bytes().len() == 34 && rs.as_bytes()[2..34] == h[..];
        } else {
            ok = false;
        }
    }
    if let Some(rs) = &inp.redeem_script {
        present = true;
        let h = hash160::Hash::hash(rs.as_bytes()).to_byte_array();
        ok &= b.len() == 23 && h[..] == b[2..22];
    }
    if let Some(ik) = inp.tap_internal_key {
        present = true;
        // output key = internal key tweaked by the recorded merkle root
        let tw = bitcoin::key::TapTweak::tap_tweak(ik, &c.u.secp, inp.tap_merkle_root);
        ok &= b.len() == 34 && tw.0.to_inner().serialize()[..] == b[2..34];
        for (cb, (script, ver)) in inp.tap_scripts.iter() {
            ok &= *ver == LeafVersion::TapScript;
            ok &= cb.verify_taproot_commitment(&c.u.secp, tw.0.to_inner(), script);
        }
    }
    if !inp.bip32_derivation.is_empty() || !inp.tap_key_origins.is_empty() {
        present = true;
    }
    // every key of the descriptor has an origin entry
    let mut ks = vec![];
    keys_of(&c.asts[i], &mut ks);
    ks.sort();
    ks.dedup();
    let origins_ok = if matches!(c.descs[i], Descriptor::Tr(_)) {
        ks.iter().all(|k| inp.tap_key_origins.contains_key(&c.u.xonly[*k]))
    } else {
        ks.iter().all(|k| inp.bip32_derivation.contains_key(&c.u.pks[*k]))
    };
    json!({"present": present, "commit_ok": ok, "origins_ok": origins_ok})
}

/// update_output_with_descriptor on an output that pays to descriptor i: what it records must
/// commit to that output; a descriptor with another scriptPubKey must be refused
fn output_update_obs(c: &Ctx, i: usize) -> Value {
    let r = catch_unwind(AssertUnwindSafe(|| -> Value {
        let tx = Transaction {
            version: transaction::Version(2),
            lock_time: absolute::LockTime::ZERO,
            input: vec![TxIn { previous_output: OutPoint { txid: Txid::from_byte_array([5u8; 32]), vout: 0 }, script_sig: ScriptBuf::new(),
                               sequence: Sequence::MAX, witness: Witness::new() }],
            output: vec![TxOut { value: Amount::from_sat(40_000), script_pubkey: c.descs[i].script_pubkey() }],
        };
        let mut psbt = Psbt::from_unsigned_tx(tx).unwrap();
        let st = psbt.update_output_with_descriptor(0, &c.descs[i]).is_ok();
        let out = &psbt.outputs[0];
        let spk = c.descs[i].script_pubkey();
        let b = spk.as_bytes();
        let mut ok = true;
        if let Some(ws) = &out.witness_script {
            let h = sha256::Hash::hash(ws.as_bytes()).to_byte_array();
            if b.len() == 34 && b[0] == 0 {
                ok &= h[..] == b[2..34];
            } else if let Some(rs) = &out.redeem_script {
                ok &= rs.as_bytes().len() == 34 && rs.as_bytes()[2..34] == h[..];
            } else {
                ok = false;
            }
        }
        if let Some(rs) = &out.redeem_script {
            let h = hash160::Hash::hash(rs.as_bytes()).to_byte_array();
            ok &= b.len() == 23 && h[..] == b[2..22];
        }
        if let Some(ik) = out.tap_internal_key {
            let root = out.tap_tree.as_ref().map(|t| t.root_hash());
            let tw = bitcoin::key::TapTweak::tap_tweak(ik, &c.u.secp, root);
            #[allow(deprecated)]
            {
                ok &= b.len() == 34 && tw.0.to_inner().serialize()[..] == b[2..34];
            }
        }
        // another descriptor (different scriptPubKey) must be refused and must not record anything
        let mut others = vec![];
        for j in 0..c.descs.len() {
            if c.descs[j].script_pubkey() != spk {
                let mut p2 = Psbt::from_unsigned_tx(psbt.unsigned_tx.clone()).unwrap();
                let r2 = p2.update_output_with_descriptor(0, &c.descs[j]).is_ok();
                let untouched = p2.outputs[0] == bitcoin::psbt::Output::default();
                others.push(json!({"accepted": r2, "untouched": untouched}));
            }
        }
        json!({"st": if st { "ok" } else { "err" }, "commit_ok": ok, "others": others})
    }));
    r.unwrap_or(json!({"st": "panic", "commit_ok": false, "others": []}))
}

fn project(c: &Ctx, psbt: &Psbt) -> Value {
    let mut out = vec![];
    for i in 0..c.descs.len() {
        let inp = &psbt.inputs[i];
        let mut ks = vec![];
        keys_of(&c.asts[i], &mut ks);
        ks.push(INTERNAL_KEY);
        ks.sort();
        ks.dedup();
        let mut sigs = vec![];
        for k in ks {
            let has = inp.partial_sigs.contains_key(&bitcoin::PublicKey::new(c.u.pks[k]))
                || inp.tap_script_sigs.keys().any(|(x, _)| *x == c.u.xonly[k])
                || (k == INTERNAL_KEY && inp.tap_key_sig.is_some());
            if has {
                sigs.push(k);
            }
        }
        let mut pre: Vec<Value> = vec![];
        for kind in crate::uni::HASH_KINDS.iter() {
            for id in 1..=crate::uni::MAX_HASH_ID {
                let d = hash_bytes(kind, &preimage(kind, id));
                let has = match *kind {
                    "sha256" => inp.sha256_preimages.contains_key(&sha256::Hash::from_slice(&d).unwrap()),
                    "hash256" => inp.hash256_preimages.contains_key(&bitcoin::hashes::sha256d::Hash::from_slice(&d).unwrap()),
                    "ripemd160" => inp.ripemd160_preimages.contains_key(&ripemd160::Hash::from_slice(&d).unwrap()),
                    _ => inp.hash160_preimages.contains_key(&hash160::Hash::from_slice(&d).unwrap()),
                };
                if has {
                    pre.push(json!([kind, id]));
                }
            }
        }
        let is_final = inp.final_script_sig.is_some() || inp.final_script_witness.is_some();
        let upd = update_consistent(c, psbt, i);
        let mut st = json!({"upd": upd["present"], "upd_commit_ok": upd["commit_ok"], "upd_origins_ok": upd["origins_ok"],
                            "sigs": sigs, "pre": pre, "final": is_final,
                            "fin": {"kind": "none", "rules": "legacy", "script": [], "stack": [], "facts": {}, "script_len": 0}, "raw": ""});
        if is_final {
            let ssig = inp.final_script_sig.clone().unwrap_or_default();
            let wit: Vec<Vec<u8>> = inp.final_script_witness.as_ref().map(|w| w.to_vec()).unwrap_or_default();
            let utxo = TxOut { value: Amount::from_sat(100_000), script_pubkey: c.descs[i].script_pubkey() };
            // alpha needs the input at index 0 of a single-input view: rebuild sighash context with the real tx
            st["fin"] = abstract_input_at(c.u, &psbt.unsigned_tx, i, &all_utxos(c), &utxo, &ssig, &wit);
            st["raw"] = json!(format!("{}|{}", crate::uni::hex(ssig.as_bytes()), wit.iter().map(|x| crate::uni::hex(x)).collect::<Vec<_>>().join(",")));
        }
        out.push(st);
    }
    json!(out)
}

fn all_utxos(c: &Ctx) -> Vec<TxOut> {
    c.descs.iter().map(|d| TxOut { value: Amount::from_sat(100_000), script_pubkey: d.script_pubkey() }).collect()
}

/// alpha of input `idx` of a multi-input transaction
pub fn abstract_input_at(u: &Universe, tx: &Transaction, idx: usize, utxos: &[TxOut], prevout: &TxOut, ssig: &ScriptBuf, wit: &[Vec<u8>]) -> Value {
    crate::input::abstract_input_multi(u, tx, idx, utxos, prevout, ssig, wit)
}

pub fn run_case(u: &Universe, case: &Value) -> Vec<Value> {
    let mut descs = vec![];
    let mut asts = vec![];
    let mut ctxs = vec![];
    for d in case["inputs"].as_array().unwrap() {
        let ctx = d["ctx"].as_str().unwrap();
        let wrap = d["wrap"].as_str().unwrap();
        // key-type outputs: the AST is c:pk_k(K)
        let kid = d["ast"]["xs"][0]["n"].as_u64().unwrap_or(0) as usize;
        let s = match wrap {
            "pkh" => format!("pkh({})", u.key_str(kid, "legacy")),
            "wpkh" => format!("wpkh({})", u.key_str(kid, "segwitv0")),
            "shwpkh" => format!("sh(wpkh({}))", u.key_str(kid, "segwitv0")),
            "trkey" => format!("tr({})", u.key_str(kid, "tap")),
            _ => wrap_str(u, wrap, &ast_to_string(u, &d["ast"], ctx)),
        };
        descs.push(Desc::from_str(&s).expect("catalogue descriptor parses"));
        asts.push(d["ast"].clone());
        ctxs.push(ctx.to_string());
    }
    let c = Ctx { u, descs, asts, ctxs };
    let env = &case["env"];
    let mut psbt = new_psbt(&c, env);
    let mut evs = vec![];
    let cid = format!("{}", case["id"]);
    let descr: Vec<Value> = case["inputs"].as_array().unwrap().iter().map(|d| json!({"ctx": d["ctx"], "wrap": d["wrap"], "ast": d["ast"], "abs": ast_to_abs(&d["ast"])})).collect();
    evs.push(json!({"id": format!("{}:0", cid), "ev": "psbt", "op": "reset", "i": 0, "k": 0, "h": ["", 0], "mall": false, "res": "ok",
                    "inputs": descr, "env": env, "state": project(&c, &psbt), "extract": [],
                    "outs": (0..c.descs.len()).map(|i| output_update_obs(&c, i)).collect::<Vec<_>>()}));
    for (n, op) in case["ops"].as_array().unwrap().iter().enumerate() {
        let name = op["op"].as_str().unwrap();
        let i = op["i"].as_u64().unwrap_or(1) as usize;
        let idx = i.saturating_sub(1);
        let mall = op["mall"].as_bool().unwrap_or(false);
        let mut extract = json!([]);
        let res = catch_unwind(AssertUnwindSafe(|| -> String {
            match name {
                "update" => match psbt.update_input_with_descriptor(idx, &c.descs[idx]) {
                    Ok(_) => "ok".into(),
                    Err(e) => format!("err:{}", e),
                },
                "addsig" => match add_sig(&c, &mut psbt, idx, op["k"].as_u64().unwrap() as usize) {
                    Ok(_) => "ok".into(),
                    Err(e) => format!("err:{}", e),
                },
                "addpre" => {
                    add_pre(&mut psbt, idx, op["h"][0].as_str().unwrap(), op["h"][1].as_u64().unwrap() as usize);
                    "ok".into()
                }
                "finalize" => {
                    let r = if mall { psbt.finalize_mall_mut(&c.u.secp) } else { psbt.finalize_mut(&c.u.secp) };
                    if r.is_ok() { "ok".into() } else { "err".into() }
                }
                "finalize_inp" => {
                    let r = if mall { psbt.finalize_inp_mall_mut(&c.u.secp, idx) } else { psbt.finalize_inp_mut(&c.u.secp, idx) };
                    match r {
                        Ok(_) => "ok".into(),
                        Err(e) => format!("err:{}", e),
                    }
                }
                "extract" => match psbt.extract(&c.u.secp) {
                    Ok(tx) => {
                        let utxos = all_utxos(&c);
                        let mut ins = vec![];
                        for (j, txin) in tx.input.iter().enumerate() {
                            ins.push(abstract_input_at(c.u, &tx, j, &utxos, &utxos[j], &txin.script_sig, &txin.witness.to_vec()));
                        }
                        extract = json!(ins);
                        "ok".into()
                    }
                    Err(e) => format!("err:{}", e),
                },
                _ => "badop".into(),
            }
        }));
        let res = res.unwrap_or_else(|_| "PANIC".to_string());
        evs.push(json!({"id": format!("{}:{}", cid, n + 1), "ev": "psbt", "op": name, "i": i, "k": op["k"].as_u64().unwrap_or(0),
                        "h": if op["h"].is_array() { op["h"].clone() } else { json!(["", 0]) }, "mall": mall,
                        "res": if res.starts_with("err") { "err".to_string() } else { res.clone() }, "msg": res,
                        "inputs": [], "env": env, "state": project(&c, &psbt), "extract": extract}));
    }
    evs
}

#[allow(dead_code)]
fn _unused() { let _ = hash256::Hash::all_zeros(); let _: BTreeMap<u8, u8> = BTreeMap::new(); }
