//! `trsat` (C01, C02, C09): satisfaction of taproot descriptors with a real script tree - key
//! path versus script paths, several leaves. Same observation as `sat`, judged by Trace_TrSat.

use std::panic::catch_unwind;
use std::str::FromStr;

use miniscript::Descriptor;
use serde_json::{json, Value};

use crate::sat::{one_result, Desc};
use crate::uni::{ast_to_abs, ast_to_string, Universe};
use crate::world::World;

/// taproot tree text from leaves + pre-order depth list
fn tree_str(leaves: &[String], depths: &[u64], pos: &mut usize, depth: u64) -> String {
    if depths[*pos] == depth {
        *pos += 1;
        leaves[*pos - 1].clone()
    } else {
        let a = tree_str(leaves, depths, pos, depth + 1);
        let b = tree_str(leaves, depths, pos, depth + 1);
        format!("{{{},{}}}", a, b)
    }
}

fn unhex(s: &str) -> Vec<u8> { (0..s.len() / 2).map(|i| u8::from_str_radix(&s[2 * i..2 * i + 2], 16).unwrap()).collect() }

/// scriptSig made of the given pushes (minimal encodings)
fn ssig_of(pushes: &[Vec<u8>]) -> bitcoin::ScriptBuf {
    let mut b = bitcoin::script::Builder::new();
    for p in pushes {
        if p.is_empty() {
            b = b.push_int(0);
        } else if p.len() == 1 && (1..=16).contains(&p[0]) {
            b = b.push_int(p[0] as i64);
        } else {
            b = b.push_slice(bitcoin::script::PushBytesBuf::try_from(p.clone()).unwrap());
        }
    }
    b.into_script()
}

/// run the interpreter on the library's satisfaction and on mutations of it; each run carries the
/// abstract input (for the L1 verdict) and what the interpreter said
fn interp_runs(u: &Universe, d: &Desc, w: &World, raw: &Value) -> Vec<Value> {
    use bitcoin::{Amount, TxOut};
    let tx = w.tx();
    let prevout = TxOut { value: Amount::from_sat(crate::world::PREV_VALUE), script_pubkey: d.script_pubkey() };
    let ssig = bitcoin::ScriptBuf::from_bytes(unhex(raw["ssig"].as_str().unwrap_or("")));
    let wit: Vec<Vec<u8>> = raw["wit"].as_array().map(|a| a.iter().map(|x| unhex(x.as_str().unwrap())).collect()).unwrap_or_default();
    // the element list that carries the satisfaction: witness for segwit, scriptSig pushes for pkh
    let legacy = wit.is_empty();
    let items: Vec<Vec<u8>> = if legacy { crate::alpha::scriptsig_pushes(&ssig).unwrap_or_default() } else { wit.clone() };
    let mut variants: Vec<(String, Vec<Vec<u8>>)> = vec![("id".into(), items.clone())];
    // corrupt the first signature-sized element
    if let Some(p) = items.iter().position(|x| x.len() >= 64 && x.len() <= 73) {
        let mut v = items.clone();
        let mid = v[p].len() / 2;
        v[p][mid] ^= 0x55;
        variants.push(("corrupt_sig".into(), v));
        let mut v = items.clone();
        v[p] = vec![];
        variants.push(("empty_sig".into(), v));
    }
    if !items.is_empty() {
        let mut v = items.clone();
        v.remove(0);
        variants.push(("drop_first".into(), v));
    }
    let mut v = items.clone();
    v.insert(0, vec![]);
    variants.push(("extra_bottom".into(), v));
    let mut out = vec![];
    for (name, v) in variants {
        let (s2, w2) = if legacy { (ssig_of(&v), vec![]) } else { (ssig.clone(), v) };
        let inp = crate::input::abstract_input(u, &tx, &prevout, &s2, &w2);
        let res = crate::interp::run_interp(u, &tx, &prevout, &s2, &w2);
        out.push(json!({"mut": name, "inp": inp, "res": res}));
    }
    out
}

pub fn run_case(u: &Universe, case: &Value) -> Vec<Value> {
    let ik = case["ik"].as_u64().unwrap() as usize;
    let leaves: Vec<String> = case["leaves"].as_array().unwrap().iter().map(|a| ast_to_string(u, a, "tap")).collect();
    let depths: Vec<u64> = case["dl"].as_array().unwrap().iter().map(|x| x.as_u64().unwrap()).collect();
    let kind = case["kind"].as_str().unwrap_or("tr");
    let ds = if kind == "pkhU" {
        format!("pkh({})", u.uncompressed_hex(ik))
    } else if kind == "pkh" {
        format!("pkh({})", u.key_str(ik, "legacy"))
    } else if kind == "wpkh" {
        format!("wpkh({})", u.key_str(ik, "segwitv0"))
    } else if kind == "shwpkh" {
        format!("sh(wpkh({}))", u.key_str(ik, "segwitv0"))
    } else if leaves.is_empty() {
        format!("tr({})", u.key_str(ik, "tap"))
    } else {
        let mut pos = 0;
        format!("tr({},{})", u.key_str(ik, "tap"), tree_str(&leaves, &depths, &mut pos, 0))
    };
    let abs: Vec<String> = case["leaves"].as_array().unwrap().iter().map(ast_to_abs).collect();
    let mut ev = json!({"id": format!("{}", case["id"]), "ev": "trsat", "ctx": "tap", "kind": kind, "ik": ik, "leaves": case["leaves"], "dl": case["dl"],
                        "abs": if kind == "tr" { format!("tr(K{},[{}] depths {:?})", ik, abs.join(" | "), depths) } else { format!("{}(K{})", kind, ik) }, "msg": "", "res": []});
    // the world lets the internal key sign exactly when its id is among the world's signers
    let worlds: Vec<World> = case["worlds"]
        .as_array()
        .unwrap()
        .iter()
        .map(|wj| {
            let mut w = World::from_json(wj);
            w.ik = w.sigs.contains(&ik);
            w
        })
        .collect();
    // the sane descriptor parser first; trees it refuses (e.g. a leaf that mixes lock units) through Tr::from_str
    let parsed = catch_unwind(|| {
        Desc::from_str(&ds).or_else(|e| miniscript::descriptor::Tr::from_str(&ds).map(Descriptor::Tr).map_err(|_| e))
    });
    match parsed {
        Err(_) => ev["parse"] = json!("panic"),
        Ok(Err(e)) => {
            ev["parse"] = json!("err");
            ev["msg"] = json!(e.to_string());
        }
        Ok(Ok(d)) => {
            ev["parse"] = json!("ok");
            let sane: Vec<bool> = match &d {
                Descriptor::Tr(tr) => tr.leaves().map(|l| l.miniscript().validate(&<miniscript::Tap as miniscript::ScriptContext>::SANE).is_ok()).collect(),
                _ => vec![],
            };
            ev["st"] = json!({"max_weight": d.max_weight_to_satisfy().ok().map(|w| w.to_wu() as i64).unwrap_or(-1), "sane": sane});
            let mut res = vec![];
            for w in &worlds {
                for mode in ["nonmall", "mall"] {
                    for route in ["desc", "plan"] {
                        let mut r1 = one_result(u, &d, w, mode, route, None);
                        // the interpreter on what the library built, and on three mutations of it (C13)
                        if route == "desc" && r1["r"] == "ok" {
                            r1["interp"] = json!(interp_runs(u, &d, w, &r1["raw"]));
                        }
                        if let Some(o) = r1.as_object_mut() {
                            o.remove("raw");
                        }
                        res.push(r1);
                    }
                }
            }
            ev["res"] = json!(res);
            // lift (C07)
            use miniscript::policy::Liftable;
            ev["lift"] = match catch_unwind(std::panic::AssertUnwindSafe(|| d.lift())) {
                Err(_) => json!({"st": "panic", "pol": {"p": "unsat", "n": 0, "xs": []}}),
                Ok(Err(e)) => json!({"st": "err", "msg": e.to_string(), "pol": {"p": "unsat", "n": 0, "xs": []}}),
                Ok(Ok(p)) => json!({"st": "ok", "pol": crate::astobs::pol_to_json(u, &p)}),
            };
        }
    }
    vec![ev]
}
