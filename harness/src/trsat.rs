//! `trsat` (C01, C02, C09): satisfaction of taproot descriptors with a real script tree - key
//! path versus script paths, several leaves. Same observation as `sat`, judged by Trace_TrSat.

use std::panic::catch_unwind;
use std::str::FromStr;

use miniscript::Descriptor;
use serde_json::{json, Value};

use crate::sat::{one_result, Desc};
use crate::uni::{ast_to_abs, ast_to_string, Universe};
use crate::world::World;

/// taproot tree text from leaves + pre-order depth list
fn tree_str(leaves: &[String], depths: &[u64], pos: &mut usize, depth: u64) -> String {
    if depths[*pos] == depth {
        *pos += 1;
        leaves[*pos - 1].clone()
    } else {
        let a = tree_str(leaves, depths, pos, depth + 1);
        let b = tree_str(leaves, depths, pos, depth + 1);
        format!("{{{},{}}}", a, b)
    }
}

pub fn run_case(u: &Universe, case: &Value) -> Vec<Value> {
    let ik = case["ik"].as_u64().unwrap() as usize;
    let leaves: Vec<String> = case["leaves"].as_array().unwrap().iter().map(|a| ast_to_string(u, a, "tap")).collect();
    let depths: Vec<u64> = case["dl"].as_array().unwrap().iter().map(|x| x.as_u64().unwrap()).collect();
    let ds = if leaves.is_empty() {
        format!("tr({})", u.key_str(ik, "tap"))
    } else {
        let mut pos = 0;
        format!("tr({},{})", u.key_str(ik, "tap"), tree_str(&leaves, &depths, &mut pos, 0))
    };
    let abs: Vec<String> = case["leaves"].as_array().unwrap().iter().map(ast_to_abs).collect();
    let mut ev = json!({"id": format!("{}", case["id"]), "ev": "trsat", "ctx": "tap", "ik": ik, "leaves": case["leaves"], "dl": case["dl"],
                        "abs": format!("tr(K{},[{}] depths {:?})", ik, abs.join(" | "), depths), "msg": "", "res": []});
    // the world lets the internal key sign exactly when its id is among the world's signers
    let worlds: Vec<World> = case["worlds"]
        .as_array()
        .unwrap()
        .iter()
        .map(|wj| {
            let mut w = World::from_json(wj);
            w.ik = w.sigs.contains(&ik);
            w
        })
        .collect();
    // the sane descriptor parser first; trees it refuses (e.g. a leaf that mixes lock units) through Tr::from_str
    let parsed = catch_unwind(|| {
        Desc::from_str(&ds).or_else(|e| miniscript::descriptor::Tr::from_str(&ds).map(Descriptor::Tr).map_err(|_| e))
    });
    match parsed {
        Err(_) => ev["parse"] = json!("panic"),
        Ok(Err(e)) => {
            ev["parse"] = json!("err");
            ev["msg"] = json!(e.to_string());
        }
        Ok(Ok(d)) => {
            ev["parse"] = json!("ok");
            let sane: Vec<bool> = match &d {
                Descriptor::Tr(tr) => tr.leaves().map(|l| l.miniscript().validate(&<miniscript::Tap as miniscript::ScriptContext>::SANE).is_ok()).collect(),
                _ => vec![],
            };
            ev["st"] = json!({"max_weight": d.max_weight_to_satisfy().ok().map(|w| w.to_wu() as i64).unwrap_or(-1), "sane": sane});
            let mut res = vec![];
            for w in &worlds {
                for mode in ["nonmall", "mall"] {
                    for route in ["desc", "plan"] {
                        res.push(one_result(u, &d, w, mode, route, None));
                    }
                }
            }
            ev["res"] = json!(res);
            // lift (C07)
            use miniscript::policy::Liftable;
            ev["lift"] = match catch_unwind(std::panic::AssertUnwindSafe(|| d.lift())) {
                Err(_) => json!({"st": "panic", "pol": {"p": "unsat", "n": 0, "xs": []}}),
                Ok(Err(e)) => json!({"st": "err", "msg": e.to_string(), "pol": {"p": "unsat", "n": 0, "xs": []}}),
                Ok(Ok(p)) => json!({"st": "ok", "pol": crate::astobs::pol_to_json(u, &p)}),
            };
        }
    }
    vec![ev]
}
