//! `crash` (C11): inputs from enumerated / parametric spaces offered to every entry point
//! under catch_unwind with a wall-clock limit. The observation is "panicked / too slow / ok".

use std::panic::{catch_unwind, AssertUnwindSafe};
use std::str::FromStr;
use std::time::Instant;

use bitcoin::hashes::Hash;
use bitcoin::psbt::Psbt;
use bitcoin::{absolute, transaction, Amount, OutPoint, ScriptBuf, Sequence, Transaction, TxIn, TxOut, Txid, Witness};
use miniscript::descriptor::{DefiniteDescriptorKey, DescriptorPublicKey, DescriptorSecretKey};
use miniscript::plan::Assets;
use miniscript::policy::{Concrete, Semantic};
use miniscript::psbt::PsbtExt;
use miniscript::{Descriptor, Miniscript};
use serde_json::{json, Value};

use crate::uni::Universe;

const SLOW_MS: u128 = 2000;

fn guard<F: FnOnce() -> bool>(name: &str, f: F, panics: &mut Vec<String>, slow: &mut Vec<String>, accepted: &mut Vec<String>) {
    let t = Instant::now();
    match catch_unwind(AssertUnwindSafe(f)) {
        Ok(true) => accepted.push(name.to_string()),
        Ok(false) => {}
        Err(_) => panics.push(name.to_string()),
    }
    if t.elapsed().as_millis() > SLOW_MS {
        slow.push(name.to_string());
    }
}

fn all_parsers(s: &str, panics: &mut Vec<String>, slow: &mut Vec<String>, acc: &mut Vec<String>) {
    guard("Tree", || miniscript::expression::Tree::from_str(s).is_ok(), panics, slow, acc);
    guard("Descriptor<DescriptorPublicKey>", || Descriptor::<DescriptorPublicKey>::from_str(s).is_ok(), panics, slow, acc);
    guard("Descriptor<DefiniteDescriptorKey>", || Descriptor::<DefiniteDescriptorKey>::from_str(s).is_ok(), panics, slow, acc);
    guard("Descriptor<String>", || Descriptor::<String>::from_str(s).is_ok(), panics, slow, acc);
    guard("Miniscript<String,Segwitv0>", || Miniscript::<String, miniscript::Segwitv0>::from_str(s).is_ok(), panics, slow, acc);
    guard("Miniscript<String,Segwitv0>::insane", || Miniscript::<String, miniscript::Segwitv0>::from_str_insane(s).is_ok(), panics, slow, acc);
    guard("Miniscript<String,Tap>::insane", || Miniscript::<String, miniscript::Tap>::from_str_insane(s).is_ok(), panics, slow, acc);
    guard("Miniscript<String,Legacy>::insane", || Miniscript::<String, miniscript::Legacy>::from_str_insane(s).is_ok(), panics, slow, acc);
    guard("Miniscript<String,BareCtx>::insane", || Miniscript::<String, miniscript::BareCtx>::from_str_insane(s).is_ok(), panics, slow, acc);
    guard("Concrete<String>", || Concrete::<String>::from_str(s).is_ok(), panics, slow, acc);
    guard("Semantic<String>", || Semantic::<String>::from_str(s).is_ok(), panics, slow, acc);
    guard("DescriptorPublicKey", || DescriptorPublicKey::from_str(s).is_ok(), panics, slow, acc);
    guard("DescriptorSecretKey", || DescriptorSecretKey::from_str(s).is_ok(), panics, slow, acc);
    guard("Tr<String>", || miniscript::descriptor::Tr::<String>::from_str(s).is_ok(), panics, slow, acc);
    guard("WalletPolicy", || miniscript::descriptor::WalletPolicy::from_str(s).is_ok(), panics, slow, acc);
}

fn op_byte(name: &str) -> Vec<u8> {
    use bitcoin::opcodes::all as op;
    let b = |o: bitcoin::opcodes::Opcode| vec![o.to_u8()];
    match name {
        "0" => vec![0x00],
        "1" => vec![0x51],
        "2" => vec![0x52],
        "17" => vec![0x01, 0x11],
        "K" => {
            let mut v = vec![33u8, 2];
            v.extend_from_slice(&[0x11; 32]);
            v
        }
        "X" => {
            let mut v = vec![32u8];
            v.extend_from_slice(&[0x22; 32]);
            v
        }
        "H20" => {
            let mut v = vec![20u8];
            v.extend_from_slice(&[0x33; 20]);
            v
        }
        "IF" => b(op::OP_IF),
        "NOTIF" => b(op::OP_NOTIF),
        "ELSE" => b(op::OP_ELSE),
        "ENDIF" => b(op::OP_ENDIF),
        "VERIFY" => b(op::OP_VERIFY),
        "TOALT" => b(op::OP_TOALTSTACK),
        "FROMALT" => b(op::OP_FROMALTSTACK),
        "IFDUP" => b(op::OP_IFDUP),
        "DUP" => b(op::OP_DUP),
        "SWAP" => b(op::OP_SWAP),
        "SIZE" => b(op::OP_SIZE),
        "EQUAL" => b(op::OP_EQUAL),
        "EQUALVERIFY" => b(op::OP_EQUALVERIFY),
        "BOOLAND" => b(op::OP_BOOLAND),
        "BOOLOR" => b(op::OP_BOOLOR),
        "ADD" => b(op::OP_ADD),
        "NUMEQUAL" => b(op::OP_NUMEQUAL),
        "NUMEQUALVERIFY" => b(op::OP_NUMEQUALVERIFY),
        "0NOTEQUAL" => b(op::OP_0NOTEQUAL),
        "CHECKSIG" => b(op::OP_CHECKSIG),
        "CHECKSIGVERIFY" => b(op::OP_CHECKSIGVERIFY),
        "CHECKSIGADD" => b(op::OP_CHECKSIGADD),
        "CHECKMULTISIG" => b(op::OP_CHECKMULTISIG),
        "CHECKMULTISIGVERIFY" => b(op::OP_CHECKMULTISIGVERIFY),
        "CLTV" => b(op::OP_CLTV),
        "CSV" => b(op::OP_CSV),
        "SHA256" => b(op::OP_SHA256),
        "HASH160" => b(op::OP_HASH160),
        "RETURN" => b(op::OP_RETURN),
        "PUSHDATA1_TRUNC" => vec![0x4c, 0x05, 0x01],
        "NEG" => vec![0x01, 0x82],          // the number -2 (-1 would have to be OP_1NEGATE)
        "NONMIN" => vec![0x02, 0x11, 0x00], // 17 with a padding byte
        "PUSH5" => vec![0x01, 0x05],        // a push that should have been OP_5
        _ => vec![0xff],
    }
}

fn psbt_mutations(u: &Universe) -> Vec<(String, Psbt)> {
    let d = Descriptor::<DefiniteDescriptorKey>::from_str(&format!("wsh(pk({}))", u.key_str(1, "segwitv0"))).unwrap();
    let dl = Descriptor::<DefiniteDescriptorKey>::from_str(&format!("sh(pk({}))", u.key_str(1, "legacy"))).unwrap();
    let mk = |vout: u32| {
        let tx = Transaction {
            version: transaction::Version(2),
            lock_time: absolute::LockTime::ZERO,
            input: vec![TxIn { previous_output: OutPoint { txid: Txid::from_byte_array([3; 32]), vout }, script_sig: ScriptBuf::new(), sequence: Sequence::MAX, witness: Witness::new() }],
            output: vec![TxOut { value: Amount::from_sat(1000), script_pubkey: ScriptBuf::from_bytes(vec![0x51]) }],
        };
        Psbt::from_unsigned_tx(tx).unwrap()
    };
    let prev = |spk: ScriptBuf, n_out: usize| Transaction {
        version: transaction::Version(2),
        lock_time: absolute::LockTime::ZERO,
        input: vec![],
        output: (0..n_out).map(|_| TxOut { value: Amount::from_sat(5000), script_pubkey: spk.clone() }).collect(),
    };
    let mut out = vec![];
    // no utxo at all
    out.push(("no_utxo".to_string(), mk(0)));
    // non_witness_utxo with fewer outputs than vout
    let mut p = mk(3);
    p.inputs[0].non_witness_utxo = Some(prev(dl.script_pubkey(), 1));
    out.push(("vout_out_of_range".to_string(), p));
    let mut p = mk(0);
    p.inputs[0].non_witness_utxo = Some(prev(dl.script_pubkey(), 0));
    out.push(("prev_tx_without_outputs".to_string(), p));
    // witness utxo whose script does not match the recorded witness script
    let mut p = mk(0);
    p.inputs[0].witness_utxo = Some(TxOut { value: Amount::from_sat(5000), script_pubkey: d.script_pubkey() });
    p.inputs[0].witness_script = Some(ScriptBuf::from_bytes(vec![0x51]));
    out.push(("witness_script_mismatch".to_string(), p));
    // junk scripts
    let mut p = mk(0);
    p.inputs[0].witness_utxo = Some(TxOut { value: Amount::from_sat(5000), script_pubkey: ScriptBuf::from_bytes(vec![0x00, 0x20, 1, 2, 3]) });
    out.push(("truncated_witness_program".to_string(), p));
    let mut p = mk(0);
    p.inputs[0].witness_utxo = Some(TxOut { value: Amount::from_sat(5000), script_pubkey: ScriptBuf::from_bytes(vec![0x51, 0x20]) });
    p.inputs[0].tap_internal_key = Some(u.xonly[1]);
    out.push(("truncated_taproot_spk".to_string(), p));
    // inputs / unsigned tx length mismatch
    let mut p = mk(0);
    p.inputs.clear();
    out.push(("no_input_maps".to_string(), p));
    let mut p = mk(0);
    p.inputs.push(Default::default());
    p.inputs[0].witness_utxo = Some(TxOut { value: Amount::from_sat(5000), script_pubkey: d.script_pubkey() });
    out.push(("extra_input_map".to_string(), p));
    // taproot fields inconsistent
    let mut p = mk(0);
    let tr = Descriptor::<DefiniteDescriptorKey>::from_str(&format!("tr({},pk({}))", u.key_str(1, "tap"), u.key_str(2, "tap"))).unwrap();
    p.inputs[0].witness_utxo = Some(TxOut { value: Amount::from_sat(5000), script_pubkey: tr.script_pubkey() });
    p.inputs[0].tap_merkle_root = Some(bitcoin::taproot::TapNodeHash::from_byte_array([7; 32]));
    p.inputs[0].tap_internal_key = Some(u.xonly[3]);
    out.push(("taproot_fields_inconsistent".to_string(), p));
    // hash preimages of unusual length, recorded under the hash they really have (a structurally
    // valid PSBT: the map only requires that the value hashes to its key), and empty / odd signatures
    for kind in ["sha256", "hash256", "ripemd160", "hash160"] {
        for len in [0usize, 1, 31, 33, 64] {
            let pre: Vec<u8> = (0..len).map(|q| (q as u8).wrapping_mul(7).wrapping_add(1)).collect();
            let digest = crate::uni::hash_bytes(kind, &pre);
            let ds = format!("wsh(and_v(v:pk({}),{}({})))", u.key_str(1, "segwitv0"), kind, crate::uni::hex(&digest));
            let dh = match Descriptor::<DefiniteDescriptorKey>::from_str(&ds) {
                Ok(x) => x,
                Err(_) => continue,
            };
            let mut p = mk(0);
            p.inputs[0].witness_utxo = Some(TxOut { value: Amount::from_sat(5000), script_pubkey: dh.script_pubkey() });
            p.inputs[0].witness_script = dh.explicit_script().ok();
            use bitcoin::hashes::Hash as _;
            match kind {
                "sha256" => { p.inputs[0].sha256_preimages.insert(bitcoin::hashes::sha256::Hash::from_slice(&digest).unwrap(), pre.clone()); }
                "hash256" => { p.inputs[0].hash256_preimages.insert(bitcoin::hashes::sha256d::Hash::from_slice(&digest).unwrap(), pre.clone()); }
                "ripemd160" => { p.inputs[0].ripemd160_preimages.insert(bitcoin::hashes::ripemd160::Hash::from_slice(&digest).unwrap(), pre.clone()); }
                _ => { p.inputs[0].hash160_preimages.insert(bitcoin::hashes::hash160::Hash::from_slice(&digest).unwrap(), pre.clone()); }
            }
            out.push((format!("{}_preimage_len_{}", kind, len), p));
        }
    }
    out
}

pub fn run_case(u: &Universe, case: &Value) -> Vec<Value> {
    let kind = case["kind"].as_str().unwrap();
    let mut panics = vec![];
    let mut slow = vec![];
    let mut acc = vec![];
    let mut ev = json!({"id": format!("{}", case["id"]), "ev": "crash", "kind": kind});
    match kind {
        "str" => {
            let s: String = case["chars"].as_array().unwrap().iter().map(|c| c.as_str().unwrap()).collect();
            ev["chars"] = case["chars"].clone();
            all_parsers(&s, &mut panics, &mut slow, &mut acc);
            ev["tree_ok"] = json!(acc.contains(&"Tree".to_string()));
        }
        "deep" => {
            // parametric deep / wide / long inputs
            let n = case["n"].as_u64().unwrap() as usize;
            let shape = case["shape"].as_str().unwrap();
            let s = match shape {
                "nest_paren" => format!("{}{}{}", "a(".repeat(n), "a", ")".repeat(n)),
                "nest_brace" => format!("tr(a,{}{}{})", "{a,".repeat(n), "a", "}".repeat(n)),
                "nest_wrappers" => format!("{}:1", "n".repeat(n)),
                "nest_andv" => format!("{}1{}", "and_v(v:1,".repeat(n), ")".repeat(n)),
                "nest_ori" => format!("{}1{}", "or_i(0,".repeat(n), ")".repeat(n)),
                "wide_thresh" => format!("thresh(1,pk(A){})", ",s:pk(A)".repeat(n)),
                "wide_multi" => format!("multi(1{})", ",A".repeat(n)),
                "long_name" => format!("{}(a)", "a".repeat(n)),
                "long_number" => format!("older({})", "9".repeat(n)),
                "unclosed" => "wsh(".repeat(n),
                _ => "a".to_string(),
            };
            ev["shape"] = json!(shape);
            ev["n"] = json!(n);
            all_parsers(&s, &mut panics, &mut slow, &mut acc);
        }
        "tokens" => {
            let toks: Vec<String> = case["toks"].as_array().unwrap().iter().map(|c| c.as_str().unwrap().to_string()).collect();
            let mut bytes = vec![];
            for t in &toks {
                bytes.extend_from_slice(&op_byte(t));
            }
            ev["toks"] = case["toks"].clone();
            let script = ScriptBuf::from_bytes(bytes);
            // the lexer's own answer (L2 conformance with Lexer.tla): token names, or the error kind
            ev["lex"] = match catch_unwind(AssertUnwindSafe(|| miniscript::miniscript::lex::lex(&script))) {
                Ok(Ok(toks)) => json!({"st": "ok", "toks": toks.iter().map(|t| {
                    use miniscript::miniscript::lex::Token as T;
                    match t {
                        T::Num(n) => format!("Num({})", n),
                        T::Hash20(_) => "Hash20".to_string(),
                        T::Bytes32(_) => "Bytes32".to_string(),
                        T::Bytes33(_) => "Bytes33".to_string(),
                        T::Bytes65(_) => "Bytes65".to_string(),
                        x => format!("{:?}", x),
                    }
                }).collect::<Vec<_>>(), "err": ""}),
                Ok(Err(e)) => {
                    use miniscript::miniscript::lex::Error as E;
                    let kind = match e {
                        E::InvalidInt { .. } => "InvalidInt",
                        E::InvalidOpcode(_) => "InvalidOpcode",
                        E::NegativeInt { .. } => "NegativeInt",
                        E::NonMinimalVerify(_) => "NonMinimalVerify",
                        E::Script(_) => "Script",
                    };
                    json!({"st": "err", "toks": [], "err": kind})
                }
                Err(_) => json!({"st": "panic", "toks": [], "err": "PANIC"}),
            };
            guard("decode<Segwitv0>", || Miniscript::<bitcoin::PublicKey, miniscript::Segwitv0>::decode_consensus(&script).is_ok(), &mut panics, &mut slow, &mut acc);
            guard("decode<Tap>", || Miniscript::<bitcoin::XOnlyPublicKey, miniscript::Tap>::decode_consensus(&script).is_ok(), &mut panics, &mut slow, &mut acc);
            guard("decode<Legacy>", || Miniscript::<bitcoin::PublicKey, miniscript::Legacy>::decode_consensus(&script).is_ok(), &mut panics, &mut slow, &mut acc);
            guard("decode<Bare>", || Miniscript::<bitcoin::PublicKey, miniscript::BareCtx>::decode_consensus(&script).is_ok(), &mut panics, &mut slow, &mut acc);
            // the same bytes as scriptPubKey / witness script given to the interpreter
            guard("interpreter_bare", || {
                let w = Witness::new();
                let ss = ScriptBuf::new();
                match miniscript::interpreter::Interpreter::from_txdata(&script, &ss, &w, Sequence::MAX, absolute::LockTime::ZERO) {
                    Ok(i) => i.iter_assume_sigs().all(|x| x.is_ok()),
                    Err(_) => false,
                }
            }, &mut panics, &mut slow, &mut acc);
            guard("interpreter_wsh", || {
                let spk = ScriptBuf::new_p2wsh(&script.wscript_hash());
                let w = Witness::from_slice(&[vec![], vec![1], script.to_bytes()]);
                let ss = ScriptBuf::new();
                match miniscript::interpreter::Interpreter::from_txdata(&spk, &ss, &w, Sequence::MAX, absolute::LockTime::ZERO) {
                    Ok(i) => i.iter_assume_sigs().all(|x| x.is_ok()),
                    Err(_) => false,
                }
            }, &mut panics, &mut slow, &mut acc);
        }
        "psbt_mut" => {
            let mut names = vec![];
            for (name, p) in psbt_mutations(u) {
                names.push(name.clone());
                let mut p1 = p.clone();
                guard(&format!("finalize_mut:{}", name), || p1.finalize_mut(&u.secp).is_ok(), &mut panics, &mut slow, &mut acc);
                let mut p2 = p.clone();
                guard(&format!("finalize_inp_mut:{}", name), || p2.finalize_inp_mut(&u.secp, 0).is_ok(), &mut panics, &mut slow, &mut acc);
                let p3 = p.clone();
                guard(&format!("extract:{}", name), || p3.extract(&u.secp).is_ok(), &mut panics, &mut slow, &mut acc);
                // after a serialise / deserialise round trip (what a peer could send)
                let bytes = p.serialize();
                if let Ok(mut p4) = Psbt::deserialize(&bytes) {
                    guard(&format!("finalize_mut_deserialized:{}", name), || p4.finalize_mut(&u.secp).is_ok(), &mut panics, &mut slow, &mut acc);
                }
                let mut p5 = p.clone();
                let d = Descriptor::<DefiniteDescriptorKey>::from_str(&format!("wsh(pk({}))", u.key_str(1, "segwitv0"))).unwrap();
                guard(&format!("update_input:{}", name), || p5.update_input_with_descriptor(0, &d).is_ok(), &mut panics, &mut slow, &mut acc);
            }
            ev["mutations"] = json!(names);
        }
        "assets" => {
            // key expressions with / without origin against Assets with different paths
            let fp = "d34db33f";
            let keyforms = vec![
                format!("{}", u.pks[1]),
                format!("[{}]{}", fp, u.pks[1]),
                format!("[{}/0]{}", fp, u.pks[1]),
                format!("[{}/0'/1]{}", fp, u.pks[1]),
            ];
            let assetforms = vec![
                format!("{}", u.pks[1]),
                format!("[{}]{}", fp, u.pks[1]),
                format!("[{}/0]{}", fp, u.pks[1]),
                format!("[{}/0'/1/2]{}", fp, u.pks[1]),
                format!("[{}/5]{}", fp, u.pks[2]),
            ];
            for kf in &keyforms {
                for af in &assetforms {
                    for wrap in ["wsh(pk({}))", "sh(pk({}))", "tr({})", "wpkh({})"] {
                        let ds = wrap.replace("{}", kf);
                        let name = format!("plan:{}|{}|{}", wrap, kf.len(), af.len());
                        guard(&name, || {
                            let d = match Descriptor::<DefiniteDescriptorKey>::from_str(&ds) {
                                Ok(d) => d,
                                Err(_) => return false,
                            };
                            let a = match DescriptorPublicKey::from_str(af) {
                                Ok(k) => Assets::new().add(k),
                                Err(_) => return false,
                            };
                            d.plan(&a).is_ok()
                        }, &mut panics, &mut slow, &mut acc);
                    }
                }
            }
        }
        _ => {}
    }
    ev["panics"] = json!(panics);
    ev["slow"] = json!(slow);
    ev["accepted"] = json!(acc);
    vec![ev]
}
