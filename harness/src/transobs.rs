//! `translate` (C20): key translation and key iteration of miniscripts and descriptors.

use std::panic::{catch_unwind, AssertUnwindSafe};
use std::str::FromStr;

use miniscript::descriptor::DefiniteDescriptorKey;
use miniscript::{ForEachKey, Miniscript, MiniscriptKey, ScriptContext, TranslatePk, Translator, ValidationParams};
use serde_json::{json, Value};

use crate::alpha;
use crate::astobs::{key_id, ms_to_ast};
use crate::sat::{ty_json, wrap_str, Desc, INTERNAL_KEY};
use crate::uni::{ast_to_abs, ast_to_string, Universe};

type Pk = DefiniteDescriptorKey;

/// key mapping over key ids: map[k] = target id, 0 = the mapping fails on k,
/// -1 = map to an uncompressed key (illegal in segwit / tapscript)
pub struct MapT<'a> {
    pub u: &'a Universe,
    pub map: Vec<i64>,
    pub ctx: String,
}
impl<'a> Translator<Pk> for MapT<'a> {
    type TargetPk = Pk;
    type Error = String;
    fn pk(&mut self, pk: &Pk) -> Result<Pk, String> {
        let k = key_id(self.u, pk) as usize;
        let t = *self.map.get(k).unwrap_or(&(k as i64));
        if t == 0 {
            return Err(format!("mapping fails on K{}", k));
        }
        if t < 0 {
            return Pk::from_str(&self.u.uncompressed_hex(k)).map_err(|e| e.to_string());
        }
        Pk::from_str(&self.u.key_str(t as usize, &self.ctx)).map_err(|e| e.to_string())
    }
    fn sha256(&mut self, h: &<Pk as MiniscriptKey>::Sha256) -> Result<<Pk as MiniscriptKey>::Sha256, String> { Ok(*h) }
    fn hash256(&mut self, h: &<Pk as MiniscriptKey>::Hash256) -> Result<<Pk as MiniscriptKey>::Hash256, String> { Ok(*h) }
    fn ripemd160(&mut self, h: &<Pk as MiniscriptKey>::Ripemd160) -> Result<<Pk as MiniscriptKey>::Ripemd160, String> { Ok(*h) }
    fn hash160(&mut self, h: &<Pk as MiniscriptKey>::Hash160) -> Result<<Pk as MiniscriptKey>::Hash160, String> { Ok(*h) }
}

/// String-keyed miniscript ("K1", "K2", ..) -> concrete keys
struct FromNames<'a> {
    u: &'a Universe,
    ctx: String,
}
impl<'a> Translator<String> for FromNames<'a> {
    type TargetPk = Pk;
    type Error = String;
    fn pk(&mut self, pk: &String) -> Result<Pk, String> {
        let k: usize = pk[1..].parse().map_err(|_| "bad name".to_string())?;
        Pk::from_str(&self.u.key_str(k, &self.ctx)).map_err(|e| e.to_string())
    }
    fn sha256(&mut self, h: &String) -> Result<<Pk as MiniscriptKey>::Sha256, String> { FromStr::from_str(h).map_err(|_| "h".to_string()) }
    fn hash256(&mut self, h: &String) -> Result<<Pk as MiniscriptKey>::Hash256, String> { FromStr::from_str(h).map_err(|_| "h".to_string()) }
    fn ripemd160(&mut self, h: &String) -> Result<<Pk as MiniscriptKey>::Ripemd160, String> { FromStr::from_str(h).map_err(|_| "h".to_string()) }
    fn hash160(&mut self, h: &String) -> Result<<Pk as MiniscriptKey>::Hash160, String> { FromStr::from_str(h).map_err(|_| "h".to_string()) }
}

const MAPS: [(&str, [i64; 5]); 6] = [
    ("identity", [0, 1, 2, 3, 4]),
    ("rename", [0, 3, 4, 1, 2]),
    ("collapse", [0, 5, 5, 5, 5]),
    ("fail_on_2", [0, 1, 0, 3, 4]),
    ("uncompressed_1", [0, -1, 2, 3, 4]),
    ("shift", [0, 2, 3, 4, 1]),
];

fn ms_obs<Ctx: ScriptContext>(u: &Universe, case: &Value) -> Value {
    let ctx = case["ctx"].as_str().unwrap();
    let ast = &case["ast"];
    let s = ast_to_string(u, ast, ctx);
    let mut ev = json!({"id": format!("{}", case["id"]), "ev": "translate", "ctx": ctx, "ast": ast, "abs": ast_to_abs(ast), "have": false});
    let ms = match catch_unwind(|| Miniscript::<Pk, Ctx>::from_str_with_validation_params(&s, &ValidationParams::MAX)) {
        Ok(Ok(m)) => m,
        _ => return ev,
    };
    ev["have"] = json!(true);
    ev["script"] = json!(alpha::script_ops(u, &ms.encode()).unwrap_or_default());
    // iteration
    ev["iter_pk"] = json!(ms.iter_pk().map(|k| key_id(u, &k)).collect::<Vec<_>>());
    let mut fe = vec![];
    let all = ms.for_each_key(|k| {
        fe.push(key_id(u, k));
        true
    });
    ev["for_each"] = json!(fe);
    ev["for_each_ret"] = json!(all);
    let mut seen = 0;
    let any2 = ms.for_any_key(|k| {
        seen += 1;
        key_id(u, k) == 2
    });
    ev["for_any_is_2"] = json!(any2);
    // translations
    let mut maps = vec![];
    for (name, m) in MAPS.iter() {
        let mut t = MapT { u, map: m.to_vec(), ctx: ctx.to_string() };
        let r = catch_unwind(AssertUnwindSafe(|| ms.translate_pk(&mut t)));
        let mut o = json!({"name": name, "map": m});
        match r {
            Err(_) => o["st"] = json!("panic"),
            Ok(Err(e)) => {
                o["st"] = json!("err");
                o["msg"] = json!(format!("{:?}", e));
            }
            Ok(Ok(tm)) => {
                o["st"] = json!("ok");
                o["ast"] = ms_to_ast(u, &tm);
                o["script"] = json!(alpha::script_ops(u, &tm.encode()).unwrap_or_default());
                o["ty_same"] = json!(ty_json(&tm) == ty_json(&ms));
                o["eq_orig"] = json!(tm == ms);
            }
        }
        for k in ["ast", "script"] {
            if o.get(k).is_none() {
                o[k] = json!(if k == "ast" { json!({"f": "0", "n": 0, "ks": [], "xs": []}) } else { json!([]) });
            }
        }
        if o.get("ty_same").is_none() {
            o["ty_same"] = json!(false);
            o["eq_orig"] = json!(false);
        }
        if o.get("msg").is_none() {
            o["msg"] = json!("");
        }
        maps.push(o);
    }
    ev["maps"] = json!(maps);
    // composition: shift after rename == map (shift o rename)
    let comp = catch_unwind(AssertUnwindSafe(|| {
        let mut f = MapT { u, map: MAPS[1].1.to_vec(), ctx: ctx.to_string() };
        let mut g = MapT { u, map: MAPS[5].1.to_vec(), ctx: ctx.to_string() };
        let gf: Vec<i64> = (0..5).map(|k| if k == 0 { 0 } else { MAPS[5].1[MAPS[1].1[k] as usize] }).collect();
        let mut h = MapT { u, map: gf, ctx: ctx.to_string() };
        match (ms.translate_pk(&mut f).and_then(|x| x.translate_pk(&mut g)), ms.translate_pk(&mut h)) {
            (Ok(a), Ok(b)) => a == b,
            (Err(_), Err(_)) => true,
            _ => false,
        }
    }));
    ev["compose_ok"] = json!(comp.unwrap_or(false));
    // String -> concrete keys
    let names = crate::uni::ast_to_abs(ast);
    let _ = names;
    let sname = ast_to_named(u, ast);
    let via = catch_unwind(AssertUnwindSafe(|| {
        match Miniscript::<String, Ctx>::from_str_with_validation_params(&sname, &ValidationParams::MAX) {
            Ok(sm) => {
                let mut t = FromNames { u, ctx: ctx.to_string() };
                match sm.translate_pk(&mut t) {
                    Ok(cm) => json!({"st": "ok", "eq": cm == ms}),
                    Err(e) => json!({"st": "err", "eq": false, "msg": format!("{:?}", e)}),
                }
            }
            Err(e) => json!({"st": "noparse", "eq": false, "msg": e.to_string()}),
        }
    }));
    ev["from_names"] = via.unwrap_or(json!({"st": "panic", "eq": false}));
    // descriptor level (first wrapper of the context) when the fragment is a complete script
    let wrap = match ctx {
        "segwitv0" => "wsh",
        "legacy" => "sh",
        "tap" => "tr",
        _ => "bare",
    };
    let dres = catch_unwind(AssertUnwindSafe(|| -> Value {
        let d = match Desc::from_str(&wrap_str(u, wrap, &s)) {
            Ok(d) => d,
            Err(_) => return json!({"have": false}),
        };
        let mut keys = vec![];
        d.for_each_key(|k| {
            keys.push(key_id(u, k));
            true
        });
        let mut o = json!({"have": true, "wrap": wrap, "for_each": keys, "iter_pk": d.iter_pk().map(|k| key_id(u, &k)).collect::<Vec<_>>()});
        let mut t = MapT { u, map: MAPS[1].1.to_vec(), ctx: ctx.to_string() };
        match d.translate_pk(&mut t) {
            Ok(td) => {
                let mut tk = vec![];
                td.for_each_key(|k| {
                    tk.push(key_id(u, k));
                    true
                });
                o["rename_keys"] = json!(tk);
                o["rename_st"] = json!("ok");
                // the script of the translated descriptor
                let inner = match &td {
                    miniscript::Descriptor::Tr(tr) => tr.leaves().next().map(|l| l.compute_script()),
                    other => other.explicit_script().ok(),
                };
                o["rename_script"] = json!(inner.map(|s| alpha::script_ops(u, &s).unwrap_or_default()).unwrap_or_default());
            }
            Err(e) => {
                o["rename_st"] = json!("err");
                o["rename_keys"] = json!([]);
                o["rename_script"] = json!([]);
                o["msg"] = json!(format!("{:?}", e));
            }
        }
        let mut idt = MapT { u, map: MAPS[0].1.to_vec(), ctx: ctx.to_string() };
        o["identity_eq"] = json!(d.translate_pk(&mut idt).map(|x| x == d).unwrap_or(false));
        // what a translation returns is a descriptor of its type: under every injective mapping
        // (also the one producing an uncompressed key) an Ok result must print and parse back
        let mut objs = vec![valid_after(u, ctx, wrap, &d)];
        let is_pk1 = case["ast"]["f"] == "c" && case["ast"]["xs"][0]["f"] == "pk_k" && case["ast"]["xs"][0]["n"] == 1;
        if is_pk1 {
            let k1 = u.key_str(1, ctx);
            let forms: Vec<(&str, String)> = match ctx {
                "legacy" => vec![("pkh", format!("pkh({})", k1))],
                "segwitv0" => vec![("wpkh", format!("wpkh({})", k1)), ("shwpkh", format!("sh(wpkh({}))", k1))],
                "tap" => vec![("trkey", format!("tr({})", k1))],
                _ => vec![],
            };
            for (w, text) in forms {
                if let Ok(kd) = Desc::from_str(&text) {
                    objs.push(valid_after(u, ctx, w, &kd));
                }
            }
        }
        o["valid"] = json!(objs);
        o
    }));
    ev["desc"] = dres.unwrap_or(json!({"have": false, "panic": true}));
    let _ = INTERNAL_KEY;
    ev
}

/// translate `d` under the injective mappings; for each: outcome and whether an Ok result is an
/// object its own parser accepts and finds equal
fn valid_after(u: &Universe, ctx: &str, wrap: &str, d: &Desc) -> Value {
    let mut rows = vec![];
    for (name, map) in MAPS.iter().filter(|(n, _)| ["identity", "rename", "uncompressed_1", "shift"].contains(n)) {
        let r = catch_unwind(AssertUnwindSafe(|| {
            let mut t = MapT { u, map: map.to_vec(), ctx: ctx.to_string() };
            match d.translate_pk(&mut t) {
                Ok(td) => {
                    let text = td.to_string();
                    let back = Desc::from_str(&text);
                    let mut tk = vec![];
                    td.for_each_key(|k| {
                        tk.push(key_id(u, k));
                        true
                    });
                    json!({"name": name, "st": "ok", "reparse": match back {
                        Ok(b) => if b == td { "equal" }
                                 // (a bare c:pk_h prints as pkh(K), which parses as the pkh output type)
                                 else if b.to_string() == text && b.script_pubkey() == td.script_pubkey() { "same_output" }
                                 else { "differs" },
                        Err(_) => "rejected" }, "keys": tk})
                }
                Err(e) => json!({"name": name, "st": "err", "reparse": "", "keys": [], "msg": format!("{:?}", e)}),
            }
        }));
        rows.push(r.unwrap_or(json!({"name": name, "st": "panic", "reparse": "", "keys": []})));
    }
    let mut keys = vec![];
    d.for_each_key(|k| {
        keys.push(key_id(u, k));
        true
    });
    json!({"wrap": wrap, "keys": keys, "rows": rows})
}

/// AST text with symbolic key names K1.. and the real hash strings
fn ast_to_named(u: &Universe, a: &Value) -> String {
    // reuse the concrete renderer, then replace key strings by names
    let mut s = ast_to_string(u, a, "segwitv0");
    for k in 1..=crate::uni::MAX_KEYS {
        s = s.replace(&u.key_str(k, "segwitv0"), &format!("K{}", k));
    }
    s
}

pub fn run_case(u: &Universe, case: &Value) -> Vec<Value> {
    vec![match case["ctx"].as_str().unwrap() {
        "bare" => ms_obs::<miniscript::BareCtx>(u, case),
        "legacy" => ms_obs::<miniscript::Legacy>(u, case),
        "segwitv0" => ms_obs::<miniscript::Segwitv0>(u, case),
        "tap" => ms_obs::<miniscript::Tap>(u, case),
        _ => panic!("bad ctx"),
    }]
}
