//! The shared abstract universe: key ids, hash ids, rendering of abstract ASTs to the
//! library's text syntax with real keys / hashes. No oracle logic lives here.

use bitcoin::hashes::{hash160, ripemd160, sha256, sha256d, Hash};
use bitcoin::secp256k1::{self, Keypair, Secp256k1, SecretKey, XOnlyPublicKey};
use serde_json::Value;

pub const MAX_KEYS: usize = 24;

pub struct Universe {
    pub secp: Secp256k1<secp256k1::All>,
    pub sks: Vec<SecretKey>,           // index 0 unused; ids are 1-based
    pub pks: Vec<secp256k1::PublicKey>,
    pub xonly: Vec<XOnlyPublicKey>,
    pub keypairs: Vec<Keypair>,
}

impl Universe {
    pub fn new() -> Self {
        let secp = Secp256k1::new();
        let mut sks = vec![];
        let mut pks = vec![];
        let mut xonly = vec![];
        let mut keypairs = vec![];
        for i in 0..=MAX_KEYS {
            // ids 1, 2 are given key material whose compressed (33-byte) order and x-only order DISAGREE
            // (and ids 3, 4 material that sorts against its listing order), so that the sorted
            // multisig fragments over the smallest key sets already exercise both BIP67 orders
            let label = match i {
                1 => 16,
                2 => 8,
                8 => 2,
                16 => 1,
                x => x,
            };
            let d = sha256::Hash::hash(format!("msverif key {}", label).as_bytes());
            let sk = SecretKey::from_slice(d.as_byte_array()).expect("valid sk");
            let kp = Keypair::from_secret_key(&secp, &sk);
            sks.push(sk);
            pks.push(secp256k1::PublicKey::from_secret_key(&secp, &sk));
            xonly.push(kp.x_only_public_key().0);
            keypairs.push(kp);
        }
        Universe { secp, sks, pks, xonly, keypairs }
    }

    /// key id -> text used inside a descriptor of this context
    pub fn key_str(&self, k: usize, ctx: &str) -> String {
        if ctx == "tap" {
            format!("{}", self.xonly[k])
        } else {
            format!("{}", self.pks[k])
        }
    }

    pub fn uncompressed_hex(&self, k: usize) -> String {
        let b = self.pks[k].serialize_uncompressed();
        b.iter().map(|x| format!("{:02x}", x)).collect()
    }

    pub fn key_id_of_compressed(&self, b: &[u8]) -> Option<usize> {
        (1..=MAX_KEYS).find(|&k| self.pks[k].serialize()[..] == *b)
    }
    pub fn key_id_of_uncompressed(&self, b: &[u8]) -> Option<usize> {
        (1..=MAX_KEYS).find(|&k| self.pks[k].serialize_uncompressed()[..] == *b)
    }
    pub fn key_id_of_xonly(&self, b: &[u8]) -> Option<usize> {
        (1..=MAX_KEYS).find(|&k| self.xonly[k].serialize()[..] == *b)
    }
}

pub const MAX_HASH_ID: usize = 4;
pub const HASH_KINDS: [&str; 4] = ["sha256", "hash256", "ripemd160", "hash160"];

pub fn preimage(kind: &str, id: usize) -> [u8; 32] {
    sha256::Hash::hash(format!("msverif pre {} {}", kind, id).as_bytes()).to_byte_array()
}

pub fn hash_bytes(kind: &str, pre: &[u8]) -> Vec<u8> {
    match kind {
        "sha256" => sha256::Hash::hash(pre).to_byte_array().to_vec(),
        "hash256" => sha256d::Hash::hash(pre).to_byte_array().to_vec(),
        "ripemd160" => ripemd160::Hash::hash(pre).to_byte_array().to_vec(),
        "hash160" => hash160::Hash::hash(pre).to_byte_array().to_vec(),
        _ => panic!("bad hash kind"),
    }
}

pub fn hex(b: &[u8]) -> String { b.iter().map(|x| format!("{:02x}", x)).collect() }

/// text form of a hash fragment's argument. NB: the library prints hash256 in
/// *forward* byte order of sha256d (Display of its own hash256 type), see key.rs.
pub fn hash_str(kind: &str, id: usize) -> String { hex(&hash_bytes(kind, &preimage(kind, id))) }

/// Render an abstract AST (as produced by AstGen.tla) to miniscript text.
pub fn ast_to_string(u: &Universe, a: &Value, ctx: &str) -> String {
    let f = a["f"].as_str().unwrap();
    let n = a["n"].as_i64().unwrap_or(0);
    let xs: Vec<&Value> = a["xs"].as_array().map(|v| v.iter().collect()).unwrap_or_default();
    let ks: Vec<usize> = a["ks"]
        .as_array()
        .map(|v| v.iter().map(|x| x.as_u64().unwrap() as usize).collect())
        .unwrap_or_default();
    match f {
        "0" | "1" => f.to_string(),
        "pk_k" | "pk_h" => format!("{}({})", f, u.key_str(n as usize, ctx)),
        "older" | "after" => format!("{}({})", f, n),
        "sha256" | "hash256" | "ripemd160" | "hash160" => format!("{}({})", f, hash_str(f, n as usize)),
        "a" | "s" | "c" | "d" | "v" | "j" | "n" => {
            // collect a run of wrappers
            let mut ws = String::from(f);
            let mut cur = xs[0];
            loop {
                let cf = cur["f"].as_str().unwrap();
                if ["a", "s", "c", "d", "v", "j", "n"].contains(&cf) {
                    ws.push_str(cf);
                    cur = &cur["xs"][0];
                } else {
                    break;
                }
            }
            format!("{}:{}", ws, ast_to_string(u, cur, ctx))
        }
        "thresh" => {
            let subs: Vec<String> = xs.iter().map(|x| ast_to_string(u, x, ctx)).collect();
            format!("thresh({},{})", n, subs.join(","))
        }
        "multi" | "multi_a" | "sortedmulti" | "sortedmulti_a" => {
            let subs: Vec<String> = ks.iter().map(|k| u.key_str(*k, ctx)).collect();
            format!("{}({},{})", f, n, subs.join(","))
        }
        _ => {
            let subs: Vec<String> = xs.iter().map(|x| ast_to_string(u, x, ctx)).collect();
            format!("{}({})", f, subs.join(","))
        }
    }
}

/// A short human-readable rendering with abstract key names (for diagnostics / samples).
pub fn ast_to_abs(a: &Value) -> String {
    let f = a["f"].as_str().unwrap();
    let n = a["n"].as_i64().unwrap_or(0);
    let xs: Vec<&Value> = a["xs"].as_array().map(|v| v.iter().collect()).unwrap_or_default();
    let ks: Vec<String> = a["ks"]
        .as_array()
        .map(|v| v.iter().map(|x| format!("K{}", x)).collect())
        .unwrap_or_default();
    match f {
        "0" | "1" => f.to_string(),
        "pk_k" | "pk_h" => format!("{}(K{})", f, n),
        "older" | "after" => format!("{}({})", f, n),
        "sha256" | "hash256" | "ripemd160" | "hash160" => format!("{}(H{})", f, n),
        "a" | "s" | "c" | "d" | "v" | "j" | "n" => format!("{}:{}", f, ast_to_abs(xs[0])),
        "thresh" => format!(
            "thresh({},{})",
            n,
            xs.iter().map(|x| ast_to_abs(x)).collect::<Vec<_>>().join(",")
        ),
        "multi" | "multi_a" | "sortedmulti" | "sortedmulti_a" => format!("{}({},{})", f, n, ks.join(",")),
        _ => format!("{}({})", f, xs.iter().map(|x| ast_to_abs(x)).collect::<Vec<_>>().join(",")),
    }
}

/// deterministic splitmix64 PRNG (all randomness in the harness derives from VERIF_SEED)
pub struct Rng(pub u64);
impl Rng {
    pub fn next(&mut self) -> u64 {
        self.0 = self.0.wrapping_add(0x9e3779b97f4a7c15);
        let mut z = self.0;
        z = (z ^ (z >> 30)).wrapping_mul(0xbf58476d1ce4e5b9);
        z = (z ^ (z >> 27)).wrapping_mul(0x94d049bb133111eb);
        z ^ (z >> 31)
    }
    pub fn below(&mut self, n: usize) -> usize { (self.next() % (n as u64)) as usize }
    pub fn chance(&mut self, num: u64, den: u64) -> bool { self.next() % den < num }
}

/// Sugared rendering: pk(), pkh(), t: l: u: and_n() — same AST, different text.
pub fn ast_to_sugar(u: &Universe, a: &Value, ctx: &str) -> String {
    fn parts(u: &Universe, a: &Value, ctx: &str) -> (String, String) {
        // returns (wrapper prefix, body)
        let f = a["f"].as_str().unwrap();
        let xs: Vec<&Value> = a["xs"].as_array().map(|v| v.iter().collect()).unwrap_or_default();
        let isleaf = |x: &Value, name: &str| x["f"].as_str() == Some(name);
        match f {
            "c" if isleaf(xs[0], "pk_k") => (String::new(), format!("pk({})", u.key_str(xs[0]["n"].as_u64().unwrap() as usize, ctx))),
            "c" if isleaf(xs[0], "pk_h") => (String::new(), format!("pkh({})", u.key_str(xs[0]["n"].as_u64().unwrap() as usize, ctx))),
            "a" | "s" | "c" | "d" | "v" | "j" | "n" => {
                let (w, b) = parts(u, xs[0], ctx);
                (format!("{}{}", f, w), b)
            }
            "and_v" if isleaf(xs[1], "1") => {
                let (w, b) = parts(u, xs[0], ctx);
                (format!("t{}", w), b)
            }
            "or_i" if isleaf(xs[0], "0") => {
                let (w, b) = parts(u, xs[1], ctx);
                (format!("l{}", w), b)
            }
            "or_i" if isleaf(xs[1], "0") => {
                let (w, b) = parts(u, xs[0], ctx);
                (format!("u{}", w), b)
            }
            "andor" if isleaf(xs[2], "0") => (String::new(), format!("and_n({},{})", ast_to_sugar(u, xs[0], ctx), ast_to_sugar(u, xs[1], ctx))),
            "thresh" => {
                let subs: Vec<String> = xs.iter().map(|x| ast_to_sugar(u, x, ctx)).collect();
                (String::new(), format!("thresh({},{})", a["n"], subs.join(",")))
            }
            "0" | "1" | "pk_k" | "pk_h" | "older" | "after" | "sha256" | "hash256" | "ripemd160" | "hash160" | "multi" | "multi_a"
            | "sortedmulti" | "sortedmulti_a" => (String::new(), ast_to_string(u, a, ctx)),
            _ => {
                let subs: Vec<String> = xs.iter().map(|x| ast_to_sugar(u, x, ctx)).collect();
                (String::new(), format!("{}({})", f, subs.join(",")))
            }
        }
    }
    let (w, b) = parts(u, a, ctx);
    if w.is_empty() {
        b
    } else {
        format!("{}:{}", w, b)
    }
}
