------------------------------ MODULE Gen_TrSat ------------------------------
(***************************************************************************)
(* Case generator for taproot descriptors with a real script TREE (C01,    *)
(* C02, C09): key-only outputs, one, two and three leaves (both three-leaf *)
(* shapes), every leaf a well-typed B miniscript of the tap context, with  *)
(* the asset worlds over the union of the leaves' atoms and the internal   *)
(* key (so key-path and script-path spends compete).                       *)
(***************************************************************************)
EXTENDS AstGen, Json, IOUtils

CONSTANTS LeafStride, PairPool, TriplePool

IK == 20        \* id of the internal key in the harness universe

\* leaves a descriptor accepts: B, signed, non-malleable, no key twice in one leaf
NoDup(m) == LET ks == KeysPre(m) IN Cardinality(Range(ks)) = Len(ks)
SaneLeaves == {x.a : x \in {y \in WTUpTo(MaxNodes) : y.t.b = "B" /\ Has(y.t, {"s", "m"}) /\ KeyCanonical(y.a) /\ NoDup(y.a)}}
\* (definitions over overridden constants are re-evaluated at every use: park the pool once)
ASSUME TLCSet(11, Thin(SaneLeaves, LeafStride, CompSeed))
LP1 == TLCGet(11)
LP2 == LET Q == SetToSeq(LP1) IN {Q[q] : q \in 1..(IF Len(Q) < PairPool THEN Len(Q) ELSE PairPool)}
LP3 == LET Q == SetToSeq(LP1) IN {Q[q] : q \in 1..(IF Len(Q) < TriplePool THEN Len(Q) ELSE TriplePool)}

\* leaves of one tree either share their key names or use disjoint ones (keys of leaf q shifted by 2(q-1))
RECURSIVE Shift(_, _)
Shift(m, d) == IF d = 0 THEN m ELSE Shift(ShiftKeys(m), d - 1)
Disjoint(ls) == [q \in 1..Len(ls) |-> Shift(ls[q], 2 * (q - 1))]

Trees0 ==
  {[leaves |-> <<a, c>>, dl |-> <<1, 1>>] : a \in LP2, c \in LP2}
  \cup {[leaves |-> <<a, c, d>>, dl |-> <<1, 2, 2>>] : a \in LP3, c \in LP3, d \in LP3}
  \cup {[leaves |-> <<a, c, d>>, dl |-> <<2, 2, 1>>] : a \in LP3, c \in LP3, d \in LP3}
\* a leaf one of whose branches mixes lock units (not liftable, refused by the sane descriptor
\* parser, accepted by Tr::from_str) next to ordinary leaves
MixedLeaf == Bin("or_d", Un("c", Leaf("pk_k", 1)),
                 Bin("and_v", Un("v", Un("c", Leaf("pk_k", 2))), Bin("and_v", Un("v", Leaf("after", 100)), Leaf("after", 500000100))))
MixedTrees == {[leaves |-> <<MixedLeaf>>, dl |-> <<0>>]}
              \cup {[leaves |-> Disjoint(<<MixedLeaf, a>>), dl |-> <<1, 1>>] : a \in LP2}
              \cup {[leaves |-> Disjoint(<<a, MixedLeaf>>), dl |-> <<1, 1>>] : a \in LP2}
\* a deep tree: a right chain of depth 8 over nine key leaves with distinct keys (control blocks of
\* 33 + 32 * depth bytes cross the 252 / 253 byte length-prefix boundary at depth 7)
DeepTree == [leaves |-> [q \in 1..9 |-> Un("c", Leaf("pk_k", q))], dl |-> <<1, 2, 3, 4, 5, 6, 7, 8, 8>>]
Trees ==
  {DeepTree} \cup MixedTrees \cup
  {[leaves |-> <<>>, dl |-> <<>>]}
  \cup {[leaves |-> <<a>>, dl |-> <<0>>] : a \in LP1}
  \cup Trees0 \cup {[t EXCEPT !.leaves = Disjoint(t.leaves)] : t \in Trees0}

\* pseudo AST collecting every atom of the descriptor (only its atoms are used)
Union(t) == Ast("thresh", 1, <<>>, <<Un("c", Leaf("pk_k", IK))>> \o t.leaves)

WorldJson(w) == [sigs |-> SetToSeq(w.sigs), pre |-> SetToSeq(w.pre), env |-> w.env]

\* values are bound through singleton comprehensions: a LET definition would be re-evaluated at
\* every reference (quadratic in the number of worlds)
WorldsSeq(W) == [j \in 1..Len(W) |-> WorldJson(W[j])]
CaseOf(t, q) ==
  [id |-> q, ctx |-> "tap", ik |-> IK, leaves |-> t.leaves, dl |-> t.dl,
   worlds |-> CHOOSE r \in {WorldsSeq(W) : W \in {SetToSeq(WorldsOfCtx(Union(t), "tap"))}} : TRUE]
\* key-only outputs of the other types: pkh, wpkh, sh(wpkh) over the same key
\* (pkhU: the same key written uncompressed)
KeyDescs == {[kind |-> k, leaves |-> <<>>, dl |-> <<>>] : k \in {"pkh", "wpkh", "shwpkh", "pkhU"}}
CasesOf(S) == [q \in 1..Len(S) |-> CaseOf(S[q], q) @@ [kind |-> IF "kind" \in DOMAIN S[q] THEN S[q].kind ELSE "tr"]]
ASSUME TLCSet(12, CHOOSE r \in {CasesOf(S) : S \in {SetToSeq(Trees) \o SetToSeq(KeyDescs)}} : TRUE)
CaseSeq == TLCGet(12)

ASSUME ndJsonSerialize(IOEnv.OUT, CaseSeq)
ASSUME PrintT("GEN " \o ToJson(<<"cases", Len(CaseSeq), Cardinality(LP1), Cardinality(LP2), Cardinality(LP3)>>))
=============================================================================
