------------------------------ MODULE Gen_TrSat ------------------------------
(***************************************************************************)
(* Case generator for taproot descriptors with a real script TREE (C01,    *)
(* C02, C09): key-only outputs, one, two and three leaves (both three-leaf *)
(* shapes), every leaf a well-typed B miniscript of the tap context, with  *)
(* the asset worlds over the union of the leaves' atoms and the internal   *)
(* key (so key-path and script-path spends compete).                       *)
(***************************************************************************)
EXTENDS AstGen, Json, IOUtils

CONSTANTS LeafStride, PairPool, TriplePool

IK == 20        \* id of the internal key in the harness universe

AllLeaves == {x.a : x \in {y \in WTUpTo(MaxNodes) : y.t.b = "B" /\ KeyCanonical(y.a)}}
LP1 == Thin(AllLeaves, LeafStride, CompSeed)
LP2 == LET Q == SetToSeq(LP1) IN {Q[q] : q \in 1..(IF Len(Q) < PairPool THEN Len(Q) ELSE PairPool)}
LP3 == LET Q == SetToSeq(LP1) IN {Q[q] : q \in 1..(IF Len(Q) < TriplePool THEN Len(Q) ELSE TriplePool)}

Trees ==
  {[leaves |-> <<>>, dl |-> <<>>]}
  \cup {[leaves |-> <<a>>, dl |-> <<0>>] : a \in LP1}
  \cup {[leaves |-> <<a, c>>, dl |-> <<1, 1>>] : a \in LP2, c \in LP2}
  \cup {[leaves |-> <<a, c, d>>, dl |-> <<1, 2, 2>>] : a \in LP3, c \in LP3, d \in LP3}
  \cup {[leaves |-> <<a, c, d>>, dl |-> <<2, 2, 1>>] : a \in LP3, c \in LP3, d \in LP3}

\* pseudo AST collecting every atom of the descriptor (only its atoms are used)
Union(t) == Ast("thresh", 1, <<>>, <<Un("c", Leaf("pk_k", IK))>> \o t.leaves)

WorldJson(w) == [sigs |-> SetToSeq(w.sigs), pre |-> SetToSeq(w.pre), env |-> w.env]

CaseSeq ==
  LET S == SetToSeq(Trees) IN
  [q \in 1..Len(S) |->
     [id |-> q, ctx |-> "tap", ik |-> IK, leaves |-> S[q].leaves, dl |-> S[q].dl,
      worlds |-> LET W == SetToSeq(WorldsOfCtx(Union(S[q]), "tap")) IN [j \in 1..Len(W) |-> WorldJson(W[j])]]]

ASSUME ndJsonSerialize(IOEnv.OUT, CaseSeq)
ASSUME PrintT("GEN " \o ToJson(<<"cases", Len(CaseSeq), Cardinality(LP1), Cardinality(LP2), Cardinality(LP3)>>))
=============================================================================
