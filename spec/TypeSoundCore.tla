---------------------------- MODULE TypeSoundCore ----------------------------
(***************************************************************************)
(* C06: the type the REAL library assigns to a fragment is a true          *)
(* statement about executing the REAL script it encodes.  Input: the `ast` *)
(* observations (alpha of Miniscript::encode and Miniscript::ty).  For     *)
(* every fragment up to MaxN nodes TLC runs the script from every input    *)
(* stack of length <= MaxL over an adversarial alphabet, under the rules   *)
(* of the fragment's context, and reads off what the flags promise.        *)
(***************************************************************************)
EXTENDS Validation, Json, IOUtils, FiniteSetsExt

MaxN == atoi(IOEnv.MAXN)
MaxL == atoi(IOEnv.MAXL)

Report(clause, ev, detail) ==
  \* uniqueness of the dissatisfaction (e) is not among the predictions C06 lists; it is
  \* reported as information (the table-level claim is judged by C05)
  PrintT("VERDICT " \o ToJson(<<IF clause = "e_dissat_not_unique" THEN "INFO" ELSE "C06", clause, ev.id, 0, detail>>))

Marker == Num(7)
TMark  == Num(9)

Alphabet(m, ctx) ==
  {E0, E1, Num(2), Z32, J32(1), Junk(1)}
  \cup {Sig(k, "good") : k \in KeysOf(m)} \cup {Sig(k, "bad") : k \in KeysOf(m)}
  \cup {Key(k, KeyForm(ctx)) : k \in KeysOf(m)}
  \cup {Pre(h[2], h[1]) : h \in HashesOf(m)}

RECURSIVE Stacks(_, _)
Stacks(A, n) == IF n = 0 THEN {<<>>}
                ELSE LET S == Stacks(A, n - 1) IN S \cup {Append(s, a) : s \in {q \in S : Len(q) = n - 1}, a \in A}

HasGoodSig(s) == \E q \in 1..Len(s) : s[q].t = "sig" /\ s[q].q = "good"

\* environments: every lock of the fragment satisfied / not satisfied
Envs(m, ctx) ==
  {Env(RulesOf(ctx), TRUE, l, s, v) : l \in LockCands(m), s \in SeqCands(m), v \in VerCands(m)}

OutLen(base) == IF base = "V" THEN 0 ELSE 1

\* run the real script on Marker ++ s (++ TMark for W); classify
Run1(ev, t, s, env) ==
  LET code == IF t.b = "K" THEN Append(ev.script, Op("CHECKSIG")) ELSE ev.script
      inp  == <<Marker>> \o s \o (IF t.b = "W" THEN <<TMark>> ELSE <<>>)
      vm   == Run(code, inp, env)
      st   == vm.st
      n    == Len(st)
      \* locate result r and what is left of the input below it
      res  == IF vm.err # "" THEN [o |-> "abort", left |-> <<>>, r |-> E0]
              ELSE IF t.b = "V" THEN [o |-> "sat", left |-> st, r |-> E1]
              ELSE IF t.b = "W" THEN
                   IF n < 2 THEN [o |-> "shape", left |-> <<>>, r |-> E0]
                   ELSE IF st[n] = TMark THEN [o |-> IF Truthy(st[n - 1]) THEN "sat" ELSE "dsat", left |-> SubSeq(st, 1, n - 2), r |-> st[n - 1]]
                   ELSE IF st[n - 1] = TMark THEN [o |-> IF Truthy(st[n]) THEN "sat" ELSE "dsat", left |-> SubSeq(st, 1, n - 2), r |-> st[n]]
                   ELSE [o |-> "shape", left |-> <<>>, r |-> E0]
              ELSE IF n < 1 THEN [o |-> "shape", left |-> <<>>, r |-> E0]
              ELSE [o |-> IF Truthy(st[n]) THEN "sat" ELSE "dsat", left |-> SubSeq(st, 1, n - 1), r |-> st[n]]
      \* the untouched part must be a prefix of Marker ++ s
      full == <<Marker>> \o s
      prefixOk == Len(res.left) <= Len(full) /\ res.left = SubSeq(full, 1, Len(res.left))
      \* a run that ate the marker was given fewer arguments than the fragment takes
  IN [o |-> IF res.o \in {"sat", "dsat"} /\ Len(res.left) = 0 THEN "underflow"
            ELSE IF res.o \in {"sat", "dsat"} /\ ~prefixOk THEN "shape" ELSE res.o,
      consumed |-> Len(full) - Len(res.left), r |-> res.r, s |-> s, err |-> vm.err]

JudgeEvent(ev) ==
  LET ctx == ev.ctx
      m   == ev.ast
      t   == Ty(ev.ty.b, Range(ev.ty.fl))
      A   == Alphabet(m, ctx)
      SS  == Stacks(A, MaxL)
      E   == Envs(m, ctx)
      R   == {[e |-> env, x |-> Run1(ev, t, s, env)] : s \in SS, env \in E}
      ok  == {q \in R : q.x.o \in {"sat", "dsat", "underflow"}}
      sats == {q \in R : q.x.o = "sat"}
      dsats == {q \in R : q.x.o = "dsat"}
      nosig(q) == ~HasGoodSig(q.x.s)
      ex(S) == LET q == CHOOSE q \in S : TRUE IN <<q.x.s, q.x.err, q.x.consumed>>
      \* the canonical inputs: those that are fully consumed (the fragment's own arguments)
      exact(S) == {q \in S : q.x.consumed = Len(q.x.s)}
  IN
  /\ LET S == {q \in R : q.x.o = "shape"} IN S = {} \/ Report("shape_" \o t.b, ev, ex(S))
  /\ ("z" \notin t.fl \/ LET S == {q \in ok : q.x.consumed # 0} IN S = {} \/ Report("z_consumes", ev, ex(S)))
  /\ ("o" \notin t.fl \/ LET S == {q \in ok : Len(q.x.s) >= 1 /\ q.x.consumed # 1} IN S = {} \/ Report("o_consumes", ev, ex(S)))
  /\ ("n" \notin t.fl \/ LET S == {q \in sats : q.x.consumed >= 1 /\ q.x.s[Len(q.x.s)] = E0} IN S = {} \/ Report("n_zero_top_satisfies", ev, ex(S)))
  /\ ("u" \notin t.fl \/ t.b \in {"V"} \/ LET S == {q \in sats : q.x.r # E1} IN S = {} \/ Report("u_not_one", ev, ex(S)))
  \* d: brute force is bounded by MaxL, so longer canonical dissatisfactions are taken from the
  \* L1 table (DsatSet with no assets) and executed
  /\ ("d" \notin t.fl \/ (\E q \in dsats : nosig(q) /\ q.x.r = E0)
      \/ (\E env \in E : \E dd \in DsatSet(m, [sigs |-> {}, pre |-> {}, env |-> env], ctx) :
             LET x == Run1(ev, t, dd, env) IN x.o = "dsat" /\ x.r = E0)
      \/ Report("d_no_sigfree_dissat", ev, ""))
  /\ ("f" \notin t.fl \/ LET S == {q \in dsats : nosig(q)} IN S = {} \/ Report("f_dissat_without_sig", ev, ex(S)))
  /\ ("e" \notin t.fl \/ LET S == {q.x.s : q \in exact({q \in dsats : nosig(q)})} IN Cardinality(S) <= 1 \/ Report("e_dissat_not_unique", ev, S))
  /\ ("s" \notin t.fl \/ LET S == {q \in sats : nosig(q)} IN S = {} \/ Report("s_sat_without_sig", ev, ex(S)))
  /\ PrintT("RUNS " \o ToJson(<<ev.id, Cardinality(R), Cardinality(sats), Cardinality(dsats)>>))

\* fragments of the context: well-typed and using only fragments the context permits
Relevant(ev) ==
  /\ ev.have /\ TypeOf(ev.ast, ev.ctx).ok
  \* the exhaustive part up to MaxN nodes, plus the sampled wrapper closure above it
  /\ ((ev.dom = "wt" /\ NodeCount(ev.ast) <= MaxN) \/ ev.dom = "wrap")
  /\ (ev.ctx \in {"legacy", "bare"} => ~HasFrag(ev.ast, "or_i") /\ ~HasFrag(ev.ast, "d"))

=============================================================================
