------------------------------- MODULE Verify -------------------------------
(***************************************************************************)
(* L1: validation of a whole transaction input, by output type.            *)
(* `inp` is alpha of (scriptPubKey, scriptSig, witness): the template kind *)
(* recognised from the scriptPubKey bytes, the executed script, the        *)
(* initial stack, and the hash-commitment facts alpha established with     *)
(* bitcoin_hashes (L1 treats hashes as uninterpreted).                     *)
(***************************************************************************)
EXTENDS MsSpec

MAX_P2SH_SCRIPT      == 520
MAX_SCRIPT           == 10000
MAX_STD_P2WSH_SCRIPT == 3600
MAX_STD_P2WSH_ITEMS  == 100
MAX_STD_SCRIPTSIG    == 1650

EnvOf(w, rules, std) == [w.env EXCEPT !.rules = rules, !.std = std]

VerifyRun(inp, env) == Run(inp.script, inp.stack, [env EXCEPT !.rules = inp.rules])

\* which clause of input validation fails ("" = accepted)
VerifyWhy(inp, env) ==
  LET k  == inp.kind
      f  == inp.facts
      e  == [env EXCEPT !.rules = inp.rules]
      vm == Run(inp.script, inp.stack, e)
      run == IF Accepts(vm, e) THEN ""
             ELSE IF vm.err # "" THEN vm.err ELSE "final_stack"
  IN
  IF e.std /\ ~f.ssig_minimal THEN "minimaldata"
  ELSE
  CASE k \in {"bare", "pkh"} ->
         IF e.std /\ ~f.ssig_pushonly THEN "sigpushonly"
         ELSE IF ~f.wit_empty THEN "unexpected_witness"
         ELSE IF e.std /\ f.ssig_bytes > MAX_STD_SCRIPTSIG THEN "scriptsig_size"
         ELSE IF inp.script_len > MAX_SCRIPT THEN "script_size"
         ELSE run
    [] k = "sh" ->
         IF ~f.ssig_pushonly THEN "sigpushonly"
         ELSE IF ~f.wit_empty THEN "unexpected_witness"
         ELSE IF ~f.commit THEN "p2sh_hash_mismatch"
         ELSE IF inp.script_len > MAX_P2SH_SCRIPT THEN "push_size"
         ELSE IF e.std /\ f.ssig_bytes > MAX_STD_SCRIPTSIG THEN "scriptsig_size"
         ELSE run
    [] k \in {"wsh", "shwsh"} ->
         IF k = "wsh" /\ ~f.ssig_empty THEN "witness_malleated"
         ELSE IF k = "shwsh" /\ ~(f.ssig_pushonly /\ f.ssig_single_push) THEN "witness_malleated_p2sh"
         ELSE IF ~f.commit THEN "witness_program_mismatch"
         ELSE IF inp.script_len > MAX_SCRIPT THEN "script_size"
         ELSE IF e.std /\ inp.script_len > MAX_STD_P2WSH_SCRIPT THEN "std_script_size"
         ELSE IF e.std /\ Len(inp.stack) > MAX_STD_P2WSH_ITEMS THEN "std_stack_items"
         ELSE run
    [] k \in {"wpkh", "shwpkh"} ->
         IF k = "wpkh" /\ ~f.ssig_empty THEN "witness_malleated"
         ELSE IF k = "shwpkh" /\ ~(f.ssig_pushonly /\ f.ssig_single_push) THEN "witness_malleated_p2sh"
         ELSE IF ~f.commit THEN "witness_program_mismatch"
         ELSE IF Len(inp.stack) # 2 THEN "witness_program_mismatch"
         ELSE run
    [] k = "trkey" ->
         IF ~f.ssig_empty THEN "witness_malleated"
         ELSE IF Len(inp.stack) = 1 /\ inp.stack[1] = Sig(0, "good") THEN "" ELSE "schnorr_sig"
    [] k = "trscript" ->
         IF ~f.ssig_empty THEN "witness_malleated"
         ELSE IF ~f.commit THEN "witness_program_mismatch"
         ELSE IF ~f.leaf_ver_ok THEN "unknown_leaf_version"
         ELSE run
    [] OTHER -> "malformed"

VerifyInput(inp, env) == VerifyWhy(inp, env) = ""

\* size model of a stack (C09): witness serialisation (1-byte varint + bytes) and
\* scriptSig pushes (push opcode + bytes), with worst-case signatures: 72 bytes for
\* low-S ECDSA (71-byte DER + sighash byte), 65 for Schnorr with explicit sighash type
ElemBytesMax(x, rules) ==
  IF x.t = "sig" THEN (IF rules = "tap" THEN 65 ELSE 72) ELSE SizeOf(x)
RECURSIVE WitBytes(_, _, _)
WitBytes(st, i, rules) ==
  IF i > Len(st) THEN 0 ELSE 1 + ElemBytesMax(st[i], rules) + WitBytes(st, i + 1, rules)
PushBytes(x, rules) ==
  IF x.t = "e0" THEN 1 ELSE IF x.t = "num" /\ x.k <= 16 THEN 1 ELSE 1 + ElemBytesMax(x, rules)
RECURSIVE SsigBytes(_, _, _)
SsigBytes(st, i, rules) ==
  IF i > Len(st) THEN 0 ELSE PushBytes(st[i], rules) + SsigBytes(st, i + 1, rules)
=============================================================================
