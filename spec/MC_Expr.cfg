CONSTANT MaxLen = 7
INIT Init
NEXT Next
INVARIANT Inv
CHECK_DEADLOCK FALSE
