---------------------------- MODULE MC_TrCompile ----------------------------
(* the taproot layout model on a domain of policies: leaf weights add up, every Huffman outcome is optimal *)
EXTENDS TrCompile
L(p, n) == [p |-> p, n |-> n, xs |-> <<>>, w |-> <<>>]
And(a, c) == [p |-> "and", n |-> 0, xs |-> <<a, c>>, w |-> <<>>]
Or(a, c, wa, wc) == [p |-> "or", n |-> 0, xs |-> <<a, c>>, w |-> <<wa, wc>>]
Thr(k, xs) == [p |-> "thresh", n |-> k, xs |-> xs, w |-> <<>>]
Atoms == {L("key", 1), L("key", 2), L("older", 10), L("sha256", 1)}
Odds == {<<1, 1>>, <<9, 1>>, <<1, 3>>, <<2, 1>>}
P2 == {Or(a, c, o[1], o[2]) : a \in Atoms, c \in Atoms, o \in Odds} \cup {And(a, c) : a \in Atoms, c \in Atoms}
       \cup {Thr(k, <<a, c, L("key", 3)>>) : k \in 1..2, a \in Atoms, c \in Atoms}
P3 == {Or(x, c, o[1], o[2]) : x \in P2, c \in {L("key", 4), L("sha256", 2)}, o \in Odds}
P4 == {Or(x, y, o[1], o[2]) : x \in {q \in P2 : q.p = "or"}, y \in {q \in P2 : q.p # "and"}, o \in {<<1, 1>>, <<3, 1>>}}
VARIABLES P, done
Init == P \in Atoms \cup P2 \cup P3 \cup P4 /\ done = FALSE
Next == ~done /\ done' = TRUE /\ P' = P
Lemma ==
  LET Lv == TrLeaves(P)
      ws == [q \in 1..Len(Lv) |-> Lv[q].w]
  IN
  /\ SumSeq(ws, 1) = Denom(P)                                  \* probabilities add up to one
  /\ \A q \in 1..Len(Lv) : Lv[q].w > 0 /\ Lv[q].pol.p # "or" /\ ~IsOr1(Lv[q].pol)
  /\ \A ls \in HuffOutcomes(HuffStart(ws)) :
       /\ Len(ls) = Len(ws)
       /\ CostOf(ls) = OptCost(ws, 1..Len(ws))                 \* Huffman is optimal, whatever the tie-break
=============================================================================
