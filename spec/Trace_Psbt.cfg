INIT Init
NEXT Next
VIEW View
POSTCONDITION Post
CHECK_DEADLOCK FALSE
