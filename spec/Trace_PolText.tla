----------------------------- MODULE Trace_PolText -----------------------------
(***************************************************************************)
(* C10 / C20 on policies.  The abstract policy P (records [p, n, xs, w],   *)
(* w = odds of an "or") is written as text with real keys; the harness     *)
(* reports what the library parsed (alpha back into the same vocabulary),  *)
(* printed, re-parsed, translated under four key mappings and iterated.    *)
(*   C10  the parser builds P; print -> parse is the identity and a        *)
(*        fixpoint, also for the lifted semantic policy                    *)
(*   C20  translate(P, f) = Subst(P, f) - same shape, thresholds, ODDS and *)
(*        child order, keys mapped; it fails exactly when f fails on an    *)
(*        occurring key; keys() / for_each_key visit the bag of keys of P  *)
(***************************************************************************)
EXTENDS Integers, Sequences, FiniteSets, TLC, Json, IOUtils, SequencesExt

ASSUME TLCSet(1, ndJsonDeserialize(IOEnv.TRACE))
Rec == TLCGet(1)
NB == 64

VARIABLES b, i
Init == b = 0 /\ i = 0
Next == \/ b = 0 /\ b' \in 1..NB /\ i' = 0
        \/ b > 0 /\ i = 0 /\ b' = b /\ i' \in {j \in 1..Len(Rec) : j % NB = b - 1}

Report(prop, clause, ev, detail) == PrintT("VERDICT " \o ToJson(<<prop, clause, ev.id, 0, detail>>))

\* key k under mapping f (f[k + 1]; ids beyond the table are left alone; 0 = the mapping fails)
MapKey(f, k) == IF k + 1 <= Len(f) THEN f[k + 1] ELSE k
RECURSIVE Subst(_, _)
Subst(P, f) ==
  IF P.p = "key" THEN [P EXCEPT !.n = MapKey(f, P.n)]
  ELSE IF Len(P.xs) = 0 THEN P
  ELSE [P EXCEPT !.xs = [q \in 1..Len(P.xs) |-> Subst(P.xs[q], f)]]

RECURSIVE KeySeq(_)
RECURSIVE KeySeqS(_, _)
KeySeqS(xs, q) == IF q > Len(xs) THEN <<>> ELSE KeySeq(xs[q]) \o KeySeqS(xs, q + 1)
KeySeq(P) == IF P.p = "key" THEN <<P.n>> ELSE KeySeqS(P.xs, 1)

Count(s, x) == Cardinality({q \in 1..Len(s) : s[q] = x})
SameBag(s, t) == Len(s) = Len(t) /\ \A x \in Range(s) \cup Range(t) : Count(s, x) = Count(t, x)

JudgeTr(ev, P, t) ==
  LET ks == KeySeq(P)
      fails == \E q \in 1..Len(ks) : MapKey(t.map, ks[q]) = 0
  IN
  /\ (t.st # "panic" \/ Report("C11", "policy_translate_panic", ev, t.name))
  /\ (t.st = "panic" \/
      /\ ((t.st = "err") = fails
          \/ Report("C20", IF fails THEN "translation_succeeds_although_mapping_fails" ELSE "translation_fails_although_mapping_succeeds", ev, t.name))
      /\ (t.st # "ok" \/ fails \/ t.out = Subst(P, t.map)
          \/ Report("C20", "translated_policy_differs_from_substitution", ev, <<t.name, t.out>>))
      /\ (t.name # "identity" \/ t.st # "ok" \/ t.ident_eq \/ Report("C20", "identity_translation_not_equal", ev, "")))

JudgeEvent(ev) ==
  LET P == ev.pol IN
  /\ (~ev.panic \/ Report("C11", "policy_text_panic", ev, ev.msg))
  /\ (ev.panic \/
      /\ (ev.parsed \/ Report("C10", "valid_policy_text_rejected", ev, ev.msg))
      /\ (~ev.parsed \/
          /\ (ev.back = P \/ Report("C10", "policy_parser_builds_other_policy", ev, ev.back))
          /\ (ev.rt.ok \/ Report("C10", "printed_policy_rejected", ev, ""))
          /\ (~ev.rt.ok \/ (ev.rt.eq /\ ev.rt.fix) \/ Report("C10", "policy_print_parse_round_trip", ev, <<ev.rt.eq, ev.rt.fix>>))
          /\ (~ev.sem.lifted \/
              /\ ((ev.sem.ok /\ ev.sem.eq /\ ev.sem.fix) \/ Report("C10", "semantic_policy_print_parse_round_trip", ev, <<ev.sem.ok, ev.sem.eq, ev.sem.fix>>))
              /\ (ev.sem.tr_id_eq \/ Report("C20", "semantic_identity_translation_not_equal", ev, "")))
          /\ \A q \in 1..Len(ev.trs) : JudgeTr(ev, P, ev.trs[q])
          /\ (SameBag(ev.keys, KeySeq(P)) \/ Report("C20", "keys_is_not_the_bag_of_keys", ev, <<ev.keys, KeySeq(P)>>))
          /\ (SameBag(ev.each, KeySeq(P)) \/ Report("C20", "for_each_key_is_not_the_bag_of_keys", ev, <<ev.each, KeySeq(P)>>))))

Inv == i > 0 => JudgeEvent(Rec[i])
Post == PrintT("TRACE_DONE " \o ToJson(<<Len(Rec), TLCGet("stats").distinct>>))
=============================================================================
