------------------------------ MODULE Gen_Compile ------------------------------
(***************************************************************************)
(* C08 case generator: concrete policies (and / weighted or / thresh over  *)
(* keys, a hash, time locks) up to 4 leaves, keys labelled in              *)
(* first-occurrence order.  Policies are uniform records [p, n, xs, w]     *)
(* (w = odds of the children of an "or").                                  *)
(***************************************************************************)
EXTENDS Integers, Sequences, FiniteSets, TLC, Json, IOUtils, SequencesExt

CONSTANTS Stride, Seed

L(p, n) == [p |-> p, n |-> n, xs |-> <<>>, w |-> <<>>]
And(a, c) == [p |-> "and", n |-> 0, xs |-> <<a, c>>, w |-> <<>>]
Or(a, c, wa, wc) == [p |-> "or", n |-> 0, xs |-> <<a, c>>, w |-> <<wa, wc>>]
Thr(k, xs) == [p |-> "thresh", n |-> k, xs |-> xs, w |-> <<>>]

Atoms == {L("key", 1), L("key", 2), L("key", 3), L("key", 4), L("after", 100), L("older", 10), L("sha256", 1)}
Odds == {<<1, 1>>, <<9, 1>>, <<1, 9>>}

P2 == {And(a, c) : a \in Atoms, c \in Atoms} \cup {Or(a, c, o[1], o[2]) : a \in Atoms, c \in Atoms, o \in Odds}
P3 == {And(x, c) : x \in P2, c \in Atoms} \cup {And(c, x) : x \in P2, c \in Atoms}
      \cup {Or(x, c, o[1], o[2]) : x \in P2, c \in Atoms, o \in Odds} \cup {Or(c, x, o[1], o[2]) : x \in P2, c \in Atoms, o \in Odds}
      \cup {Thr(k, <<a, c, d>>) : k \in 1..3, a \in Atoms, c \in Atoms, d \in Atoms}
P4 == {And(x, y) : x \in {q \in P2 : q.p = "or"}, y \in {q \in P2 : q.p = "or" /\ q.w = <<1, 1>>}}
      \cup {Or(x, y, 1, 1) : x \in {q \in P2 : q.p = "and"}, y \in {q \in P2 : q.p = "and"}}
      \cup {Thr(k, <<x, c, d>>) : k \in 1..3, x \in {q \in P2 : q.w \in {<<>>, <<1, 1>>}}, c \in Atoms, d \in Atoms}
      \cup {Thr(2, <<a, c, d, e>>) : a \in Atoms, c \in Atoms, d \in Atoms, e \in {L("key", 4), L("older", 10)}}

RECURSIVE KeysOfP(_)
RECURSIVE KeysOfPS(_, _)
KeysOfPS(xs, q) == IF q > Len(xs) THEN <<>> ELSE KeysOfP(xs[q]) \o KeysOfPS(xs, q + 1)
KeysOfP(P) == IF P.p = "key" THEN <<P.n>> ELSE KeysOfPS(P.xs, 1)
RECURSIVE FirstOcc(_, _, _)
FirstOcc(ks, q, seen) == IF q > Len(ks) THEN TRUE
                         ELSE IF ks[q] <= seen THEN FirstOcc(ks, q + 1, seen)
                         ELSE ks[q] = seen + 1 /\ FirstOcc(ks, q + 1, seen + 1)
\* canonical key labelling and no repeated key (the compiler refuses duplicate keys)
Canonical(P) == LET ks == KeysOfP(P) IN FirstOcc(ks, 1, 0) /\ Cardinality(Range(ks)) = Len(ks) /\ Len(ks) >= 1

All == SetToSeq({P \in Atoms \cup P2 \cup P3 \cup P4 : Canonical(P)})
Kept == SelectSeq([q \in 1..Len(All) |-> <<q, All[q]>>], LAMBDA x : x[1] % Stride = Seed % Stride)
Cases == [q \in 1..Len(Kept) |-> [id |-> Kept[q][1], pol |-> Kept[q][2]]]

ASSUME ndJsonSerialize(IOEnv.OUT, Cases)
ASSUME PrintT("GEN " \o ToJson(<<"policies", Len(Cases), Len(All)>>))
=============================================================================
