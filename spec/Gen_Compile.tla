------------------------------ MODULE Gen_Compile ------------------------------
(***************************************************************************)
(* C08 case generator: concrete policies (and / weighted or / thresh over  *)
(* keys, a hash, time locks) up to 4 leaves, keys labelled in              *)
(* first-occurrence order.  Policies are uniform records [p, n, xs, w]     *)
(* (w = odds of the children of an "or").                                  *)
(***************************************************************************)
EXTENDS Integers, Sequences, FiniteSets, TLC, Json, IOUtils, SequencesExt

CONSTANTS Stride, TStride, Seed, Wide

L(p, n) == [p |-> p, n |-> n, xs |-> <<>>, w |-> <<>>]
And(a, c) == [p |-> "and", n |-> 0, xs |-> <<a, c>>, w |-> <<>>]
Or(a, c, wa, wc) == [p |-> "or", n |-> 0, xs |-> <<a, c>>, w |-> <<wa, wc>>]
Thr(k, xs) == [p |-> "thresh", n |-> k, xs |-> xs, w |-> <<>>]

Atoms == {L("key", 1), L("key", 2), L("key", 3), L("key", 4), L("after", 100), L("older", 10), L("sha256", 1)}
Odds == {<<1, 1>>, <<9, 1>>, <<1, 9>>}

P2 == {And(a, c) : a \in Atoms, c \in Atoms} \cup {Or(a, c, o[1], o[2]) : a \in Atoms, c \in Atoms, o \in Odds}
P3 == {And(x, c) : x \in P2, c \in Atoms} \cup {And(c, x) : x \in P2, c \in Atoms}
      \cup {Or(x, c, o[1], o[2]) : x \in P2, c \in Atoms, o \in Odds} \cup {Or(c, x, o[1], o[2]) : x \in P2, c \in Atoms, o \in Odds}
      \cup {Thr(k, <<a, c, d>>) : k \in 1..3, a \in Atoms, c \in Atoms, d \in Atoms}
P4 == {And(x, y) : x \in {q \in P2 : q.p = "or"}, y \in {q \in P2 : q.p = "or" /\ q.w = <<1, 1>>}}
      \cup {Or(x, y, 1, 1) : x \in {q \in P2 : q.p = "and"}, y \in {q \in P2 : q.p = "and"}}
      \cup {Thr(k, <<x, c, d>>) : k \in 1..3, x \in {q \in P2 : q.w \in {<<>>, <<1, 1>>}}, c \in Atoms, d \in Atoms}
      \cup {Thr(2, <<a, c, d, e>>) : a \in Atoms, c \in Atoms, d \in Atoms, e \in {L("key", 4), L("older", 10)}}

\* thresholds with ONE composite member in every position (the compiler orders and wraps the
\* members of a thresh by cost, so the position of the expensive member matters), 3 and 4 members
K0 == L("key", 0)      \* placeholder, labelled 1, 2, 3, ... in order of occurrence by Relabel
Small == {K0, L("older", 10), L("sha256", 1)}
X2 == {Or(K0, K0, 1, 1), Thr(1, <<K0, K0>>)} \cup {And(a, c) : a \in Small, c \in {L("older", 10), L("sha256", 1), L("sha256", 2)}}
PT0 == UNION {{Thr(k, InsertAt(<<a, K0>>, q, x)) : k \in 1..3, q \in 1..3} : x \in X2, a \in Small}
       \cup UNION {{Thr(k, InsertAt(<<K0, K0, d>>, q, x)) : k \in 2..3, q \in 1..4} : x \in X2, d \in {K0, L("older", 10)}}
\* disjunctions with a conjunction on either side whose conjuncts differ in cost (key vs
\* threshold / nested choice / hash / lock), both orders of the conjuncts, every odds
CostlyX == {Thr(2, <<K0, K0, K0>>), Or(K0, K0, 1, 1), And(K0, L("sha256", 1)), L("sha256", 1), L("older", 10)}
OrAnd0 == UNION {{Or(And(K0, x), z, o[1], o[2]), Or(And(x, K0), z, o[1], o[2]), Or(z, And(K0, x), o[1], o[2]), Or(z, And(x, K0), o[1], o[2])}
                 : x \in CostlyX, z \in {K0, L("older", 10)}, o \in Odds}
\* two hash locks of the SAME kind with different images, for each of the four kinds (they must
\* stay distinct through the compiler's caches and the taproot leaf enumeration)
HashKinds == {"sha256", "hash256", "ripemd160", "hash160"}
HashPairs0 == UNION {{Or(And(K0, L(h, 1)), And(K0, L(h, 2)), 1, 1),
                      Thr(3, <<K0, K0, L(h, 1), L(h, 2)>>),
                      Thr(2, <<K0, And(K0, L(h, 1)), And(K0, L(h, 2))>>),
                      And(K0, Or(L(h, 1), L(h, 2), 1, 1)),
                      Or(And(K0, L(h, 1)), And(K0, L("sha256", 1)), 1, 1)} : h \in HashKinds}
RECURSIVE Relab(_, _)
RECURSIVE RelabSeq(_, _, _, _)
RelabSeq(xs, q, nxt, acc) ==
  IF q > Len(xs) THEN [xs |-> acc, nxt |-> nxt]
  ELSE LET r == Relab(xs[q], nxt) IN RelabSeq(xs, q + 1, r.nxt, Append(acc, r.p))
Relab(P, nxt) ==
  IF P.p = "key" THEN [p |-> L("key", nxt), nxt |-> nxt + 1]
  ELSE IF Len(P.xs) = 0 THEN [p |-> P, nxt |-> nxt]
  ELSE LET r == RelabSeq(P.xs, 1, nxt, <<>>) IN [p |-> [P EXCEPT !.xs = r.xs], nxt |-> r.nxt]
PT == {Relab(P, 1).p : P \in PT0 \cup OrAnd0 \cup HashPairs0}

\* wide policies, around the resource limits of the output types (520-byte P2SH script, 1650-byte
\* scriptSig, 3600-byte witness script, 100 witness items, 20-key CHECKMULTISIG): thresholds and
\* conjunctions of 15..19 keys, alone and as the unlikely branch of a disjunction
KeySeq(a, n) == [q \in 1..n |-> L("key", a + q - 1)]
RECURSIVE AndChain(_, _)
AndChain(a, n) == IF n = 1 THEN L("key", a) ELSE And(L("key", a), AndChain(a + 1, n - 1))
WidePols(on) ==
  IF on = 0 THEN {}
  ELSE UNION {{Thr(k, KeySeq(1, n)) : k \in {1, 2, n - 1, n}} : n \in {15, 16, 17, 19}}
       \cup UNION {{Or(L("key", 1), Thr(k, KeySeq(2, n)), o[1], o[2]) : k \in {n - 1, n}, o \in {<<3, 1>>, <<1, 1>>, <<9, 1>>, <<1, 9>>}} : n \in {15, 16, 17, 18}}
       \cup {AndChain(1, n) : n \in {15, 16, 17, 19}}
       \cup {Or(L("key", 1), AndChain(2, n), o[1], o[2]) : n \in {15, 16, 17}, o \in {<<3, 1>>, <<1, 3>>}}
WellFormedP(P) == P.p # "thresh" \/ (P.n >= 1 /\ P.n <= Len(P.xs))
RECURSIVE WellFormedAll(_)
WellFormedAll(P) == WellFormedP(P) /\ \A q \in 1..Len(P.xs) : WellFormedAll(P.xs[q])
AllW == SetToSeq({P \in WidePols(Wide) : WellFormedAll(P)})

RECURSIVE KeysOfP(_)
RECURSIVE KeysOfPS(_, _)
KeysOfPS(xs, q) == IF q > Len(xs) THEN <<>> ELSE KeysOfP(xs[q]) \o KeysOfPS(xs, q + 1)
KeysOfP(P) == IF P.p = "key" THEN <<P.n>> ELSE KeysOfPS(P.xs, 1)
RECURSIVE FirstOcc(_, _, _)
FirstOcc(ks, q, seen) == IF q > Len(ks) THEN TRUE
                         ELSE IF ks[q] <= seen THEN FirstOcc(ks, q + 1, seen)
                         ELSE ks[q] = seen + 1 /\ FirstOcc(ks, q + 1, seen + 1)
\* canonical key labelling and no repeated key (the compiler refuses duplicate keys)
Canonical(P) == LET ks == KeysOfP(P) IN FirstOcc(ks, 1, 0) /\ Cardinality(Range(ks)) = Len(ks) /\ Len(ks) >= 1

All == SetToSeq({P \in Atoms \cup P2 \cup P3 \cup P4 : Canonical(P)})
AllT == SetToSeq({P \in PT : Canonical(P)} \ Range(All))
Kept == SelectSeq([q \in 1..Len(All) |-> <<q, All[q]>>], LAMBDA x : x[1] % Stride = Seed % Stride)
KeptT == SelectSeq([q \in 1..Len(AllT) |-> <<Len(All) + q, AllT[q]>>], LAMBDA x : x[1] % TStride = Seed % TStride)
Cases == [q \in 1..Len(Kept) |-> [id |-> Kept[q][1], pol |-> Kept[q][2]]]
         \o [q \in 1..Len(KeptT) |-> [id |-> KeptT[q][1], pol |-> KeptT[q][2]]]
         \o [q \in 1..Len(AllW) |-> [id |-> Len(All) + Len(AllT) + q, pol |-> AllW[q]]]

ASSUME ndJsonSerialize(IOEnv.OUT, Cases)
ASSUME PrintT("GEN " \o ToJson(<<"policies", Len(Cases), Len(All), Len(AllT)>>))
=============================================================================
