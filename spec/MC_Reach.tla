------------------------------ MODULE MC_Reach ------------------------------
(* Lemma: the literal ReachIdx is exactly the closure of the leaf types under *)
(* the specification's type rules (with D1), and every reachable type is sane *)
EXTENDS Types, ReachIdx, SequencesExt
ASSUME TLCSet(2, ReachTypes)
ASSUME {IdxOfTy(t) : t \in TLCGet(2)} = Range(ReachIdx)
ASSUME \A t \in TLCGet(2) : Sane(t)
ASSUME PrintT("REACH_OK " \o ToString(Cardinality(TLCGet(2))))
=============================================================================
