------------------------------- MODULE MsSpec -------------------------------
(***************************************************************************)
(* L1 ground truth: the Miniscript specification.                          *)
(*   - ASTs                                                                *)
(*   - Encode: fragment -> script template (incl. VERIFY folding)          *)
(*   - SpecType: the correctness / malleability tables                     *)
(*   - SatSet / DsatSet: the complete table of (dis)satisfactions          *)
(*   - ByteLen: the script size model                                      *)
(* Transcribed from bitcoin.sipa.be/miniscript and the reference           *)
(* implementation's ComputeType, independently of rust-miniscript.         *)
(***************************************************************************)
EXTENDS Script, KeyOrder

(***************************************************************************)
(* ASTs: uniform records [f, n, ks, xs]                                    *)
(*   f  fragment name                                                      *)
(*   n  integer parameter (key id, hash id, lock value, threshold k)       *)
(*   ks key ids (multi / multi_a)                                          *)
(*   xs children                                                           *)
(***************************************************************************)
Ast(f, n, ks, xs) == [f |-> f, n |-> n, ks |-> ks, xs |-> xs]
Leaf(f, n)   == Ast(f, n, <<>>, <<>>)
Un(f, x)     == Ast(f, 0, <<>>, <<x>>)
Bin(f, x, y) == Ast(f, 0, <<>>, <<x, y>>)
Tern(f, x, y, z) == Ast(f, 0, <<>>, <<x, y, z>>)
Thresh(k, xs)   == Ast("thresh", k, <<>>, xs)
Multi(k, ks)    == Ast("multi", k, ks, <<>>)
MultiA(k, ks)   == Ast("multi_a", k, ks, <<>>)

\* sortedmulti / sortedmulti_a are multi / multi_a over the same keys in BIP67 order (by
\* compressed resp. x-only serialisation); every L1 operator reads them through Unsorted
SortedFrags == {"sortedmulti", "sortedmulti_a"}
RankIn(order, k) == CHOOSE p \in 1..Len(order) : order[p] = k
SortKeys(ks, order) == SortSeq(ks, LAMBDA a, c : RankIn(order, a) < RankIn(order, c))
Unsorted(m) == IF m.f = "sortedmulti" THEN Multi(m.n, SortKeys(m.ks, OrderC))
               ELSE MultiA(m.n, SortKeys(m.ks, OrderX))

HashFrags == {"sha256", "hash256", "ripemd160", "hash160"}
Wrappers  == {"a", "s", "c", "d", "v", "j", "n"}
BinFrags  == {"and_v", "and_b", "or_b", "or_c", "or_d", "or_i"}

\* key form used inside scripts of a context
KeyForm(ctx) == IF ctx = "tap" THEN "x" ELSE "c"
\* which script interpreter a miniscript context runs under
RulesOf(ctx) == IF ctx = "tap" THEN "tap" ELSE IF ctx = "segwitv0" THEN "segwitv0" ELSE "legacy"

(***************************************************************************)
(* Encode                                                                  *)
(***************************************************************************)
FoldVerify(ops) ==
  LET l == Len(ops) last == ops[l].op IN
  IF last \in {"EQUAL", "NUMEQUAL", "CHECKSIG", "CHECKMULTISIG"}
  THEN [ops EXCEPT ![l] = Op(last \o "VERIFY")]
  ELSE Append(ops, Op("VERIFY"))

RECURSIVE Encode(_, _)
RECURSIVE EncodeAdds(_, _, _)
EncodeAdds(xs, i, ctx) ==
  IF i > Len(xs) THEN <<>>
  ELSE Encode(xs[i], ctx) \o <<Op("ADD")>> \o EncodeAdds(xs, i + 1, ctx)

Encode(m, ctx) ==
  LET f == m.f
      X == m.xs[1]  Y == m.xs[2]  Z == m.xs[3]
      kf == KeyForm(ctx)
  IN
  CASE f = "0" -> <<Push(E0)>>
    [] f = "1" -> <<Push(E1)>>
    [] f = "pk_k" -> <<Push(Key(m.n, kf))>>
    [] f = "pk_h" -> <<Op("DUP"), Op("HASH160"), Push(KH(m.n, kf)), Op("EQUALVERIFY")>>
    [] f = "older" -> <<PushNum(m.n), Op("CSV")>>
    [] f = "after" -> <<PushNum(m.n), Op("CLTV")>>
    [] f \in HashFrags ->
         <<Op("SIZE"), PushNum(32), Op("EQUALVERIFY"),
           Op(CASE f = "sha256" -> "SHA256" [] f = "hash256" -> "HASH256"
                [] f = "ripemd160" -> "RIPEMD160" [] OTHER -> "HASH160"),
           Push(HashE(m.n, f)), Op("EQUAL")>>
    [] f = "a" -> <<Op("TOALTSTACK")>> \o Encode(X, ctx) \o <<Op("FROMALTSTACK")>>
    [] f = "s" -> <<Op("SWAP")>> \o Encode(X, ctx)
    [] f = "c" -> Append(Encode(X, ctx), Op("CHECKSIG"))
    [] f = "d" -> <<Op("DUP"), Op("IF")>> \o Encode(X, ctx) \o <<Op("ENDIF")>>
    [] f = "v" -> FoldVerify(Encode(X, ctx))
    [] f = "j" -> <<Op("SIZE"), Op("0NOTEQUAL"), Op("IF")>> \o Encode(X, ctx) \o <<Op("ENDIF")>>
    [] f = "n" -> Append(Encode(X, ctx), Op("0NOTEQUAL"))
    [] f = "and_v" -> Encode(X, ctx) \o Encode(Y, ctx)
    [] f = "and_b" -> Encode(X, ctx) \o Encode(Y, ctx) \o <<Op("BOOLAND")>>
    [] f = "or_b"  -> Encode(X, ctx) \o Encode(Y, ctx) \o <<Op("BOOLOR")>>
    [] f = "or_c"  -> Encode(X, ctx) \o <<Op("NOTIF")>> \o Encode(Y, ctx) \o <<Op("ENDIF")>>
    [] f = "or_d"  -> Encode(X, ctx) \o <<Op("IFDUP"), Op("NOTIF")>> \o Encode(Y, ctx) \o <<Op("ENDIF")>>
    [] f = "or_i"  -> <<Op("IF")>> \o Encode(X, ctx) \o <<Op("ELSE")>> \o Encode(Y, ctx) \o <<Op("ENDIF")>>
    [] f = "andor" -> Encode(X, ctx) \o <<Op("NOTIF")>> \o Encode(Z, ctx) \o <<Op("ELSE")>>
                      \o Encode(Y, ctx) \o <<Op("ENDIF")>>
    [] f = "thresh" -> Encode(X, ctx) \o EncodeAdds(m.xs, 2, ctx) \o <<PushNum(m.n), Op("EQUAL")>>
    [] f \in SortedFrags -> Encode(Unsorted(m), ctx)
    [] f = "multi" -> <<PushNum(m.n)>> \o [i \in 1..Len(m.ks) |-> Push(Key(m.ks[i], kf))]
                      \o <<PushNum(Len(m.ks)), Op("CHECKMULTISIG")>>
    [] f = "multi_a" ->
         <<Push(Key(m.ks[1], kf)), Op("CHECKSIG")>>
         \o [j \in 1..(2 * (Len(m.ks) - 1)) |->
               IF j % 2 = 1 THEN Push(Key(m.ks[(j + 1) \div 2 + 1], kf)) ELSE Op("CHECKSIGADD")]
         \o <<PushNum(m.n), Op("NUMEQUAL")>>

(***************************************************************************)
(* Script size model                                                       *)
(***************************************************************************)
\* bytes of a minimal script-number push of n >= 0
NumPushLen(n) ==
  IF n <= 16 THEN 1
  ELSE IF n < 128 THEN 2 ELSE IF n < 32768 THEN 3
  ELSE IF n < 8388608 THEN 4 ELSE IF n < 2147483647 THEN 5 ELSE 6

OpLen(o) ==
  IF o.op # "PUSH" THEN 1
  ELSE LET e == o.e IN
    CASE e.t = "e0"  -> 1
      [] e.t = "num" -> NumPushLen(e.k)
      [] OTHER       -> 1 + SizeOf(e)      \* direct push, all our constants are < 76 bytes

RECURSIVE SumLen(_, _)
SumLen(ops, i) == IF i > Len(ops) THEN 0 ELSE OpLen(ops[i]) + SumLen(ops, i + 1)
ByteLen(ops) == SumLen(ops, 1)

(***************************************************************************)
(* Types                                                                   *)
(***************************************************************************)
TypeFlags == {"z", "o", "n", "d", "u", "s", "f", "e", "m"}
\* a type is [ok |-> TRUE, b |-> base, fl |-> set of flags]  or  BadType
BadType == [ok |-> FALSE, b |-> "", fl |-> {}]
Ty(b, fl) == [ok |-> TRUE, b |-> b, fl |-> fl]
Has(t, flset) == flset \subseteq t.fl
If(c, flset) == IF c THEN flset ELSE {}

\* x & "flags"
Keep(t, flset) == t.fl \cap flset

SpecLeafType(f, ctx) ==
  CASE f = "0" -> Ty("B", {"z", "u", "d", "e", "m", "s"})
    [] f = "1" -> Ty("B", {"z", "u", "f", "m"})
    [] f = "pk_k" -> Ty("K", {"o", "n", "u", "d", "e", "m", "s"})
    [] f = "pk_h" -> Ty("K", {"n", "u", "d", "e", "m", "s"})
    [] f \in {"older", "after"} -> Ty("B", {"z", "f", "m"})
    [] f \in HashFrags -> Ty("B", {"o", "n", "u", "d", "m"})
    [] f = "multi" -> Ty("B", {"n", "u", "d", "e", "m", "s"})
    [] f = "multi_a" -> Ty("B", {"u", "d", "e", "m", "s"})

SpecUnType(f, x, ctx) ==
  CASE f = "a" -> IF x.b = "B" THEN Ty("W", Keep(x, {"u", "d", "f", "e", "m", "s"})) ELSE BadType
    [] f = "s" -> IF x.b = "B" /\ Has(x, {"o"})
                  THEN Ty("W", Keep(x, {"u", "d", "f", "e", "m", "s"})) ELSE BadType
    [] f = "c" -> IF x.b = "K"
                  THEN Ty("B", Keep(x, {"o", "n", "d", "f", "e", "m"}) \cup {"u", "s"}) ELSE BadType
    [] f = "d" -> IF x.b = "V" /\ Has(x, {"z"})
                  THEN Ty("B", {"o", "n", "d"} \cup If(Has(x, {"f"}), {"e"}) \cup Keep(x, {"m", "s"})
                               \cup If(ctx = "tap", {"u"}))
                  ELSE BadType
    [] f = "v" -> IF x.b = "B" THEN Ty("V", Keep(x, {"z", "o", "n", "m", "s"}) \cup {"f"}) ELSE BadType
    [] f = "j" -> IF x.b = "B" /\ Has(x, {"n"})
                  THEN Ty("B", If(Has(x, {"f"}), {"e"}) \cup Keep(x, {"o", "u", "m", "s"}) \cup {"n", "d"})
                  ELSE BadType
    [] f = "n" -> IF x.b = "B"
                  THEN Ty("B", Keep(x, {"z", "o", "n", "d", "f", "e", "m", "s"}) \cup {"u"}) ELSE BadType

\* o = o_x*z_y + z_x*o_y ; n = n_x + z_x*n_y
PairO(x, y) == If((Has(x, {"o"}) /\ Has(y, {"z"})) \/ (Has(x, {"z"}) /\ Has(y, {"o"})), {"o"})
PairN(x, y) == If(Has(x, {"n"}) \/ (Has(x, {"z"}) /\ Has(y, {"n"})), {"n"})
Both(x, y, flset) == x.fl \cap y.fl \cap flset
Either(x, y, flset) == (x.fl \cup y.fl) \cap flset

SpecBinType(f, x, y, ctx) ==
  CASE f = "and_v" ->
        IF x.b = "V" /\ y.b \in {"B", "K", "V"}
        THEN Ty(y.b, PairN(x, y) \cup PairO(x, y) \cup Both(x, y, {"d", "m", "z"})
                     \cup Either(x, y, {"s"})
                     \cup If(Has(y, {"f"}) \/ Has(x, {"s"}), {"f"})
                     \cup Keep(y, {"u"}))
        ELSE BadType
    [] f = "and_b" ->
        IF x.b = "B" /\ y.b = "W"
        THEN Ty("B", PairO(x, y) \cup PairN(x, y)
                     \cup If(Has(x, {"e", "s"}) /\ Has(y, {"e", "s"}), {"e"})
                     \cup Both(x, y, {"d", "z", "m"})
                     \cup If((Has(x, {"f"}) /\ Has(y, {"f"})) \/ Has(x, {"s", "f"}) \/ Has(y, {"s", "f"}), {"f"})
                     \cup Either(x, y, {"s"}) \cup {"u"})
        ELSE BadType
    [] f = "or_b" ->
        IF x.b = "B" /\ Has(x, {"d"}) /\ y.b = "W" /\ Has(y, {"d"})
        THEN Ty("B", PairO(x, y)
                     \cup If(Has(x, {"m", "e"}) /\ Has(y, {"m", "e"}) /\ (Has(x, {"s"}) \/ Has(y, {"s"})), {"m"})
                     \cup Both(x, y, {"z", "s", "e"}) \cup {"d", "u"})
        ELSE BadType
    [] f = "or_d" ->
        IF x.b = "B" /\ Has(x, {"d", "u"}) /\ y.b = "B"
        THEN Ty("B", If(Has(x, {"o"}) /\ Has(y, {"z"}), {"o"})
                     \cup If(Has(x, {"m", "e"}) /\ Has(y, {"m"}) /\ (Has(x, {"s"}) \/ Has(y, {"s"})), {"m"})
                     \cup Both(x, y, {"z", "s", "e"})
                     \cup Keep(y, {"u", "f", "d"}))
        ELSE BadType
    [] f = "or_c" ->
        IF x.b = "B" /\ Has(x, {"d", "u"}) /\ y.b = "V"
        THEN Ty("V", If(Has(x, {"o"}) /\ Has(y, {"z"}), {"o"})
                     \cup If(Has(x, {"m", "e"}) /\ Has(y, {"m"}) /\ (Has(x, {"s"}) \/ Has(y, {"s"})), {"m"})
                     \cup Both(x, y, {"z", "s"}) \cup {"f"})
        ELSE BadType
    [] f = "or_i" ->
        IF x.b = y.b /\ x.b \in {"B", "K", "V"}
        THEN Ty(x.b, Both(x, y, {"u", "f", "s"})
                     \cup If(Has(x, {"z"}) /\ Has(y, {"z"}), {"o"})
                     \cup If((Has(x, {"e"}) /\ Has(y, {"f"})) \/ (Has(x, {"f"}) /\ Has(y, {"e"})), {"e"})
                     \cup If(Has(x, {"m"}) /\ Has(y, {"m"}) /\ (Has(x, {"s"}) \/ Has(y, {"s"})), {"m"})
                     \cup Either(x, y, {"d"}))
        ELSE BadType

SpecAndOrType(x, y, z, ctx) ==
  IF x.b = "B" /\ Has(x, {"d", "u"}) /\ y.b = z.b /\ y.b \in {"B", "K", "V"}
  THEN Ty(y.b, (x.fl \cap y.fl \cap z.fl \cap {"z"})
               \cup If((Has(x, {"o"}) /\ Has(y, {"z"}) /\ Has(z, {"z"}))
                       \/ (Has(x, {"z"}) /\ Has(y, {"o"}) /\ Has(z, {"o"})), {"o"})
               \cup Both(y, z, {"u"})
               \cup If(Has(z, {"f"}) /\ (Has(x, {"s"}) \/ Has(y, {"f"})), {"f"})
               \cup Keep(z, {"d"})
               \cup If(Has(z, {"e"}) /\ (Has(x, {"s"}) \/ Has(y, {"f"})), {"e"})
               \cup If(Has(x, {"m", "e"}) /\ Has(y, {"m"}) /\ Has(z, {"m"})
                       /\ (Has(x, {"s"}) \/ Has(y, {"s"}) \/ Has(z, {"s"})), {"m"})
               \cup If(Has(z, {"s"}) /\ (Has(x, {"s"}) \/ Has(y, {"s"})), {"s"}))
  ELSE BadType

\* ts: sequence of child types, k threshold
SpecThreshType(k, ts) ==
  LET n == Len(ts)
      okShape == \A i \in 1..n : ts[i].b = (IF i = 1 THEN "B" ELSE "W") /\ Has(ts[i], {"d", "u"})
      args == [i \in 1..n |-> IF Has(ts[i], {"z"}) THEN 0 ELSE IF Has(ts[i], {"o"}) THEN 1 ELSE 2]
      RECURSIVE Sum(_)
      Sum(i) == IF i > n THEN 0 ELSE args[i] + Sum(i + 1)
      numS == Cardinality({i \in 1..n : Has(ts[i], {"s"})})
      allE == \A i \in 1..n : Has(ts[i], {"e"})
      allM == \A i \in 1..n : Has(ts[i], {"m"})
  IN IF n >= 1 /\ k >= 1 /\ k <= n /\ okShape
     THEN Ty("B", {"d", "u"}
                  \cup If(Sum(1) = 0, {"z"}) \cup If(Sum(1) = 1, {"o"})
                  \cup If(allE /\ numS = n, {"e"})
                  \cup If(allE /\ allM /\ numS >= n - k, {"m"})
                  \cup If(numS >= n - k + 1, {"s"}))
     ELSE BadType

\* context restrictions that are part of the *type system* of the specification:
\* multi only outside tapscript, multi_a only inside
FragAllowed(f, ctx) ==
  /\ (f = "multi" => ctx # "tap")
  /\ (f = "multi_a" => ctx = "tap")

\* TypeOfG(m, ctx, tctx): ctx decides which fragments exist, tctx is the context the
\* type *rules* see.  tctx = ctx gives the specification's type; tctx = "dev" gives
\* the type under the library's named deviation D1 (d:X is never `u`).
RECURSIVE TypeOfG(_, _, _)
TypeOfG(m, ctx, tctx) ==
  LET f == m.f IN
  IF f \in SortedFrags THEN TypeOfG(Unsorted(m), ctx, tctx)
  ELSE IF ~FragAllowed(f, ctx) THEN BadType
  ELSE IF f \in {"multi", "multi_a"} THEN
    IF m.n >= 1 /\ m.n <= Len(m.ks) THEN SpecLeafType(f, tctx) ELSE BadType
  ELSE IF Len(m.xs) = 0 THEN SpecLeafType(f, tctx)
  ELSE IF f \in Wrappers THEN
    LET x == TypeOfG(m.xs[1], ctx, tctx) IN IF x.ok THEN SpecUnType(f, x, tctx) ELSE BadType
  ELSE IF f \in BinFrags THEN
    LET x == TypeOfG(m.xs[1], ctx, tctx) y == TypeOfG(m.xs[2], ctx, tctx) IN
    IF x.ok /\ y.ok THEN SpecBinType(f, x, y, tctx) ELSE BadType
  ELSE IF f = "andor" THEN
    LET x == TypeOfG(m.xs[1], ctx, tctx) y == TypeOfG(m.xs[2], ctx, tctx) z == TypeOfG(m.xs[3], ctx, tctx) IN
    IF x.ok /\ y.ok /\ z.ok THEN SpecAndOrType(x, y, z, tctx) ELSE BadType
  ELSE IF f = "thresh" THEN
    LET ts == [i \in 1..Len(m.xs) |-> TypeOfG(m.xs[i], ctx, tctx)] IN
    IF \A i \in 1..Len(ts) : ts[i].ok THEN SpecThreshType(m.n, ts) ELSE BadType
  ELSE BadType

TypeOf(m, ctx)    == TypeOfG(m, ctx, ctx)
TypeOfDev(m, ctx) == TypeOfG(m, ctx, "dev")

(***************************************************************************)
(* Worlds: what the caller holds and the transaction facts.                *)
(*   [sigs: set of key ids, pre: set of <<kind, id>>, env: Env]            *)
(***************************************************************************)
HoldsPre(w, kind, id) == <<kind, id>> \in w.pre

\* concatenations: A \o B for every A in SA, B in SB (B on top)
Cat(SA, SB) == {a \o b : a \in SA, b \in SB}

(***************************************************************************)
(* SatSet / DsatSet.  SD(m, w, ctx) returns [s |-> set of stacks, d |-> …] *)
(* complete (non-canonical members included) w.r.t. assets of w.           *)
(***************************************************************************)
RECURSIVE SD(_, _, _)
\* products for thresh: set of [st |-> stack, c |-> number satisfied], children i..n,
\* stack order W_n ... W_i (child i on top)
RECURSIVE ThreshProd(_, _, _, _)
ThreshProd(xs, i, w, ctx) ==
  IF i > Len(xs) THEN {[st |-> <<>>, c |-> 0]}
  ELSE LET r == SD(xs[i], w, ctx)
           rest == ThreshProd(xs, i + 1, w, ctx)
       IN {[st |-> p.st \o a, c |-> p.c + 1] : p \in rest, a \in r.s}
          \cup {[st |-> p.st \o a, c |-> p.c] : p \in rest, a \in r.d}

\* k-subsets of key positions for multi
RECURSIVE MultiSats(_, _, _, _)
\* stacks (bottom -> top) of signatures for keys ks[i..], choosing exactly k, keys in order
MultiSats(ks, i, k, w) ==
  IF k = 0 THEN {<<>>}
  ELSE IF i > Len(ks) THEN {}
  ELSE (IF ks[i] \in w.sigs
        THEN {<<Sig(ks[i], "good")>> \o r : r \in MultiSats(ks, i + 1, k - 1, w)} ELSE {})
       \cup MultiSats(ks, i + 1, k, w)

RECURSIVE MultiASats(_, _, _, _)
\* per-key sig-or-empty, result [st, c]; stack order: key n at bottom, key 1 on top
MultiASats(ks, i, w, dummy) ==
  IF i > Len(ks) THEN {[st |-> <<>>, c |-> 0]}
  ELSE LET rest == MultiASats(ks, i + 1, w, dummy) IN
       {[st |-> p.st \o <<E0>>, c |-> p.c] : p \in rest}
       \cup (IF ks[i] \in w.sigs
             THEN {[st |-> p.st \o <<Sig(ks[i], "good")>>, c |-> p.c + 1] : p \in rest} ELSE {})

NonPreimages == {Z32, J32(1)}

SD(m, w, ctx) ==
  LET f == m.f
      kf == KeyForm(ctx)
      X == SD(m.xs[1], w, ctx)
      Y == SD(m.xs[2], w, ctx)
      Z == SD(m.xs[3], w, ctx)
  IN
  CASE f = "0" -> [s |-> {}, d |-> {<<>>}]
    [] f = "1" -> [s |-> {<<>>}, d |-> {}]
    [] f = "pk_k" -> [s |-> IF m.n \in w.sigs THEN {<<Sig(m.n, "good")>>} ELSE {}, d |-> {<<E0>>}]
    [] f = "pk_h" -> [s |-> IF m.n \in w.sigs THEN {<<Sig(m.n, "good"), Key(m.n, kf)>>} ELSE {},
                      d |-> {<<E0, Key(m.n, kf)>>}]
    [] f = "older" -> [s |-> IF CsvOk(m.n, w.env) THEN {<<>>} ELSE {}, d |-> {}]
    [] f = "after" -> [s |-> IF CltvOk(m.n, w.env) THEN {<<>>} ELSE {}, d |-> {}]
    [] f \in HashFrags -> [s |-> IF HoldsPre(w, f, m.n) THEN {<<Pre(m.n, f)>>} ELSE {},
                           d |-> {<<x>> : x \in NonPreimages}]
    [] f = "andor" -> [s |-> Cat(Y.s, X.s) \cup Cat(Z.s, X.d),
                       d |-> Cat(Z.d, X.d) \cup Cat(Y.d, X.s)]
    [] f = "and_v" -> [s |-> Cat(Y.s, X.s), d |-> Cat(Y.d, X.s)]
    [] f = "and_b" -> [s |-> Cat(Y.s, X.s),
                       d |-> Cat(Y.d, X.d) \cup Cat(Y.s, X.d) \cup Cat(Y.d, X.s)]
    [] f = "or_b"  -> [s |-> Cat(Y.d, X.s) \cup Cat(Y.s, X.d) \cup Cat(Y.s, X.s),
                       d |-> Cat(Y.d, X.d)]
    [] f = "or_c"  -> [s |-> X.s \cup Cat(Y.s, X.d), d |-> {}]
    [] f = "or_d"  -> [s |-> X.s \cup Cat(Y.s, X.d), d |-> Cat(Y.d, X.d)]
    [] f = "or_i"  -> [s |-> Cat(X.s, {<<E1>>}) \cup Cat(Y.s, {<<E0>>}),
                       d |-> Cat(X.d, {<<E1>>}) \cup Cat(Y.d, {<<E0>>})]
    [] f = "thresh" ->
         LET P == ThreshProd(m.xs, 1, w, ctx) IN
         [s |-> {p.st : p \in {q \in P : q.c = m.n}},
          d |-> {p.st : p \in {q \in P : q.c # m.n}}]
    [] f \in SortedFrags -> SD(Unsorted(m), w, ctx)
    [] f = "multi" ->
         [s |-> {<<E0>> \o r : r \in MultiSats(m.ks, 1, m.n, w)},
          d |-> {[i \in 1..(m.n + 1) |-> E0]}]
    [] f = "multi_a" ->
         LET P == MultiASats(m.ks, 1, w, 0) IN
         [s |-> {p.st : p \in {q \in P : q.c = m.n}},
          d |-> {p.st : p \in {q \in P : q.c # m.n}}]
    [] f \in {"a", "s", "c", "n"} -> X
    [] f = "d" -> [s |-> Cat(X.s, {<<E1>>}), d |-> {<<E0>>}]
    [] f = "v" -> [s |-> X.s, d |-> {}]
    [] f = "j" -> [s |-> X.s,
                   d |-> {<<E0>>} \cup {dd \in X.d : Len(dd) > 0 /\ SizeOf(dd[Len(dd)]) # 0}]

SatSet(m, w, ctx)  == SD(m, w, ctx).s
DsatSet(m, w, ctx) == SD(m, w, ctx).d

=============================================================================
