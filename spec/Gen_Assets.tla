------------------------------ MODULE Gen_Assets ------------------------------
(***************************************************************************)
(* C17, asset lookup: which descriptor keys an Assets key source can sign  *)
(* for.  A case is (asset path, key path, split, same fingerprint?):       *)
(* paths are sequences of steps (n = unhardened n, 1000 + n = hardened n), *)
(* the key is written [fp/origin]xpub/derivation with its full path split  *)
(* into origin and derivation after `split` steps.                         *)
(***************************************************************************)
EXTENDS Integers, Sequences, FiniteSets, TLC, Json, IOUtils, SequencesExt

CONSTANT MaxLen

Steps == {0, 1, 5, 1044}
Hard(s) == s >= 1000
RECURSIVE Paths(_)
Paths(n) == IF n = 0 THEN {<<>>} ELSE {Append(p, s) : p \in Paths(n - 1), s \in Steps}
AllPaths == UNION {Paths(n) : n \in 0..MaxLen}

\* the xpub can only derive unhardened steps: everything after the split is unhardened
Splits(k) == {s \in 0..Len(k) : \A q \in (s + 1)..Len(k) : ~Hard(k[q])}

Cases0 == {[apath |-> a, kpath |-> k, split |-> s, same_fp |-> f]
           : a \in AllPaths, k \in AllPaths, s \in 0..MaxLen, f \in BOOLEAN}
Cases1 == {c \in Cases0 : c.split \in Splits(c.kpath) /\ (c.same_fp \/ Len(c.apath) <= 1)}
CaseSeq == LET S == SetToSeq(Cases1) IN [q \in 1..Len(S) |-> S[q] @@ [id |-> q]]
ASSUME ndJsonSerialize(IOEnv.OUT, CaseSeq)
ASSUME PrintT("GEN " \o ToJson(<<"cases", Len(CaseSeq)>>))
=============================================================================
