---------------------------- MODULE MC_TapBuilder ----------------------------
(* every tree shape up to MaxLeaves leaves and the two chains for the listed depths *)
EXTENDS TapBuilderSM, SequencesExt
CONSTANTS MaxLeaves, ChainDepths

RECURSIVE Shapes(_)
Shapes(n) == IF n = 1 THEN {TLeaf(1)}
             ELSE UNION {{TNode(l, r) : l \in Shapes(i), r \in Shapes(n - i)} : i \in 1..(n - 1)}
RECURSIVE LeftChain(_, _)
LeftChain(d, k) == IF d = 0 THEN TLeaf(k) ELSE TNode(LeftChain(d - 1, k + 1), TLeaf(k))
RECURSIVE RightChain(_, _)
RightChain(d, k) == IF d = 0 THEN TLeaf(k) ELSE TNode(TLeaf(k), RightChain(d - 1, k + 1))
\* a chain that turns: depth d reached on the left, then a right chain of length e below it
Zig(d, e) == IF d = 0 THEN RightChain(e, 1) ELSE TNode(LeftChain(d - 1, 500), RightChain(e, 1))

Bush4(k) == TNode(TNode(TLeaf(k), TLeaf(k + 1)), TNode(TLeaf(k + 2), TLeaf(k + 3)))
RECURSIVE LeftOver(_, _, _)
LeftOver(d, k, bottom) == IF d = 0 THEN bottom ELSE TNode(LeftOver(d - 1, k + 1, bottom), TLeaf(k))
RECURSIVE RightOver(_, _, _)
RightOver(d, k, bottom) == IF d = 0 THEN bottom ELSE TNode(TLeaf(k), RightOver(d - 1, k + 1, bottom))
MCTrees == {LeftOver(126, 10, Bush4(1)), RightOver(126, 10, Bush4(1)), RightOver(125, 10, TNode(Bush4(1), Bush4(5))), LeftOver(127, 10, Bush4(1))}
           \cup UNION {Shapes(n) : n \in 1..MaxLeaves}
           \cup {LeftChain(d, 1) : d \in ChainDepths} \cup {RightChain(d, 1) : d \in ChainDepths}
           \cup {TNode(LeftChain(d, 1), RightChain(d, 300)) : d \in {x \in ChainDepths : x <= 128}}
=============================================================================
