------------------------------ MODULE Gen_Types ------------------------------
(***************************************************************************)
(* Jobs for the type-table comparison (C05).  Each job is one row: the     *)
(* harness evaluates the library's rule for the fixed children and ALL 960 *)
(* values of the last child.                                               *)
(***************************************************************************)
EXTENDS Types, ReachIdx, Json, IOUtils, SequencesExt

CONSTANTS BinAll,      \* TRUE: binary rows for all 960 left types; FALSE: sane left types only
          TernStride,  \* take every TernStride-th sane (x, y) pair for andor
          ThreshN      \* max number of thresh children

UnRules  == <<"a", "s", "c", "d", "v", "j", "n", "t", "u", "l">>
BinRules == <<"and_b", "and_v", "or_b", "or_d", "or_c", "or_i">>
\* verdict domain: reachable types (a subset of the sane ones: checked below)
ASSUME \A q \in 1..Len(ReachIdx) : Sane(TyOfIdx(ReachIdx[q]))
SaneSeq == ReachIdx

Lefts == IF BinAll THEN [i \in 1..NTypes |-> i - 1] ELSE SaneSeq

LeafJobs == <<[job |-> "leaf"]>>
UnJobs == [r \in 1..Len(UnRules) |-> [job |-> "un", rule |-> UnRules[r]]]
BinJobs == [q \in 1..(Len(BinRules) * Len(Lefts)) |->
              [job |-> "bin", rule |-> BinRules[((q - 1) \div Len(Lefts)) + 1], x |-> Lefts[((q - 1) % Len(Lefts)) + 1]]]
\* andor: x must be B d u to type; take sane x of that shape (others are covered by bin-like rejection)
AndOrX == SelectSeq(SaneSeq, LAMBDA i : TRUE)
AndOrPairs == [q \in 1..(Len(SaneSeq) * Len(SaneSeq)) |-> <<SaneSeq[((q - 1) \div Len(SaneSeq)) + 1], SaneSeq[((q - 1) % Len(SaneSeq)) + 1]>>]
AndOrJobs == LET P == SelectSeq([q \in 1..Len(AndOrPairs) |-> <<q, AndOrPairs[q]>>], LAMBDA p : p[1] % TernStride = 0)
             IN [q \in 1..Len(P) |-> [job |-> "andor", x |-> P[q][2][1], y |-> P[q][2][2]]]
\* thresh: n = 1 (kids = <<>>), n = 2 (one fixed kid), n = 3 (two fixed kids, sane only, strided)
ThreshJobs1 == <<[job |-> "thresh", k |-> 1, kids |-> <<>>]>>
ThreshJobs2 == [q \in 1..(2 * Len(SaneSeq)) |->
                  [job |-> "thresh", k |-> ((q - 1) \div Len(SaneSeq)) + 1, kids |-> <<SaneSeq[((q - 1) % Len(SaneSeq)) + 1]>>]]
ThreshJobs3 == IF ThreshN < 3 THEN <<>> ELSE
   LET P == SelectSeq([q \in 1..Len(AndOrPairs) |-> <<q, AndOrPairs[q]>>], LAMBDA p : p[1] % TernStride = 0)
   IN [q \in 1..(3 * Len(P)) |->
         [job |-> "thresh", k |-> ((q - 1) \div Len(P)) + 1, kids |-> P[((q - 1) % Len(P)) + 1][2]]]

Jobs0 == LeafJobs \o UnJobs \o BinJobs \o AndOrJobs \o ThreshJobs1 \o ThreshJobs2 \o ThreshJobs3
Jobs == [q \in 1..Len(Jobs0) |-> Jobs0[q] @@ [id |-> q, reach |-> SaneSeq]]

ASSUME ndJsonSerialize(IOEnv.OUT, Jobs)
ASSUME PrintT("GEN " \o ToJson(<<"jobs", Len(Jobs), Cardinality(SaneIdx), Len(SaneSeq)>>))
=============================================================================
