--------------------------- MODULE Trace_TypeSound ---------------------------
(* C06 binding: TypeSoundCore judged on alpha(Miniscript::encode) and          *)
(* Miniscript::ty of the real library (the `ast` observations).                *)
EXTENDS TypeSoundCore

ASSUME TLCSet(1, ndJsonDeserialize(IOEnv.TRACE))
Rec == TLCGet(1)
NB == 64

VARIABLES b, i
Init == b = 0 /\ i = 0
Next == \/ b = 0 /\ b' \in 1..NB /\ i' = 0
        \/ b > 0 /\ i = 0 /\ b' = b /\ i' \in {j \in 1..Len(Rec) : j % NB = b - 1}

\* a fragment the library types although its opcodes do not exist under the script rules of the
\* context (CHECKSIGADD outside tapscript, CHECKMULTISIG inside): no execution can leave 0 or 1,
\* so none of its labels is a true statement about its execution
Foreign(ev) ==
  ~ev.have \/ ~HasHardForbidden(ev.ast, ev.ctx)
  \/ PrintT("VERDICT " \o ToJson(<<"C06", "typed_fragment_cannot_execute_in_context", ev.id, 0, "">>))

Inv == i > 0 => (Foreign(Rec[i]) /\ (~Relevant(Rec[i]) \/ JudgeEvent(Rec[i])))
Post == PrintT("TRACE_DONE " \o ToJson(<<Len(Rec), TLCGet("stats").distinct>>))
=============================================================================
