CONSTANTS
  MaxSubs = 2
  MaxGroup = 3
  GroupAlphabet = {0, 9, 10, 17, 31}
  NBases = 4
  PayloadCodes <- AllCodes
INIT Init
NEXT Next
INVARIANT Detected
CHECK_DEADLOCK FALSE
