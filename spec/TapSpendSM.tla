----------------------------- MODULE TapSpendSM -----------------------------
(***************************************************************************)
(* The spend-info machines of TapSpend.tla as a TLA+ state machine: one    *)
(* action per consumed leaf (builder), one per call of next() (iterator).  *)
(***************************************************************************)
EXTENDS TapSpend

CONSTANT TreeSet

VARIABLES tree, phase, pos, nodes, pstack, idx, mstack, dstack, out
vars == <<tree, phase, pos, nodes, pstack, idx, mstack, dstack, out>>

DL == DepthList(tree)

Init ==
  /\ tree \in TreeSet
  /\ phase = "build" /\ pos = 1
  /\ nodes = <<>> /\ pstack = <<>>
  /\ idx = 1 /\ mstack = <<>> /\ dstack = <<>> /\ out = <<>>

BuildLeaf ==
  /\ phase = "build" /\ pos <= Len(DL)
  /\ LET r == PlaceLeaf(nodes, pstack, DL[pos]) IN
     /\ r.ok
     /\ nodes' = r.ns /\ pstack' = r.ps
  /\ pos' = pos + 1
  /\ phase' = IF pos = Len(DL) THEN "iter" ELSE "build"
  /\ UNCHANGED <<tree, idx, mstack, dstack, out>>

IterNext ==
  /\ phase = "iter" /\ idx <= Len(nodes)
  /\ LET w == WalkToLeaf(nodes, idx, mstack, dstack) IN
     /\ idx' = w.i /\ mstack' = w.ms /\ dstack' = w.ds
     /\ out' = Append(out, w.item)
     /\ phase' = IF w.i > Len(nodes) THEN "done" ELSE "iter"
  /\ UNCHANGED <<tree, pos, nodes, pstack>>

Next == BuildLeaf \/ IterNext \/ (phase = "done" /\ UNCHANGED vars)
Spec == Init /\ [][Next]_vars

\* the builder never has more open parents than the depth of the leaf it just placed, and ends
\* with none; the root slot then holds the Merkle root; the build phase never gets stuck on
\* the depth assertion
BuilderInv ==
  /\ phase # "build" => pstack = <<>>
  /\ phase # "build" => TermC(nodes[1].sib) = Commit(tree)
  /\ phase = "build" /\ pos > 1 => Len(pstack) <= DL[pos - 1].d
  /\ phase = "build" => PlaceLeaf(nodes, pstack, DL[pos]).ok
\* every emitted leaf carries the path of the same leaf in the specification's tree
IterInv ==
  LET L == LeavesT(tree) IN
  /\ Len(out) <= Len(L)
  /\ \A q \in 1..Len(out) :
       /\ out[q].k = L[q].k
       /\ Len(out[q].branch) = L[q].depth
       /\ [x \in 1..Len(out[q].branch) |-> TermC(out[q].branch[x])] = L[q].path
  /\ phase = "done" => (Len(out) = Len(L) /\ mstack = <<>> /\ dstack = <<>>)
\* the functional form used by trace validation is the same computation
FnInv == phase = "done" => SpendItems(DL) = out
=============================================================================
