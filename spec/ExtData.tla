------------------------------ MODULE ExtData ------------------------------
(***************************************************************************)
(* L2: the static figures of a fragment as the implementation derives them *)
(* (src/miniscript/types/extra_props.rs): script bytes, static opcode      *)
(* count, "VERIFY comes free", and for the satisfaction and for the        *)
(* dissatisfaction case the worst-case number of witness elements, witness *)
(* bytes, scriptSig bytes, extra stack elements during execution and       *)
(* executed CHECKMULTISIG keys - one rule per fragment, bottom-up.  The    *)
(* quirks of the code are kept (a hash dissatisfaction is counted as two   *)
(* elements; multi under-counts the two number pushes on the stack).       *)
(*                                                                         *)
(* Bound in two directions: MC_ExtData checks the figures against L1 (they *)
(* bound every satisfaction in SatSet, the script size equals ByteLen of   *)
(* Encode); Trace_Sat compares them with the figures the library reports   *)
(* for every enumerated miniscript (drift).                                *)
(***************************************************************************)
EXTENDS MsSpec

EDNoD == [some |-> FALSE, c |-> 0, w |-> 0, s |-> 0, x |-> 0, o |-> 0]
EDD(c, w, s, x, o) == [some |-> TRUE, c |-> c, w |-> w, s |-> s, x |-> x, o |-> o]
EDMax2(a, b) == IF a >= b THEN a ELSE b

\* Option::zip(..).map(concat) with the rule for the execution stack given by `bump`
\* (1: the left result stays on the stack while the right member runs)
EDConcat(l, r, bump) ==
  IF ~l.some \/ ~r.some THEN EDNoD
  ELSE EDD(l.c + r.c, l.w + r.w, l.s + r.s, EDMax2(l.x, bump + r.x), l.o + r.o)
EDFMax(a, b) ==
  IF ~a.some THEN b ELSE IF ~b.some THEN a
  ELSE EDD(EDMax2(a.c, b.c), EDMax2(a.w, b.w), EDMax2(a.s, b.s), EDMax2(a.x, b.x), EDMax2(a.o, b.o))
EDMapD(d, dc, dw, ds) == IF ~d.some THEN EDNoD ELSE EDD(d.c + dc, d.w + dw, d.s + ds, d.x, d.o)

EDKeyBytes(ctx) == IF ctx = "tap" THEN 33 ELSE 34       \* push opcode + (x-only | compressed) key
EDSigBytes(ctx) == IF ctx = "tap" THEN 66 ELSE 73
EDNumCost(k, n) == IF k > 16 /\ n > 16 THEN 4 ELSE IF k > 16 \/ n > 16 THEN 3 ELSE 2

EDRec(pk, fv, ops, sat, dis) == [pk |-> pk, fv |-> fv, ops |-> ops, sat |-> sat, dis |-> dis]

(***************************************************************************)
(* thresh: per figure, the members are ordered by (sat - dissat) of that   *)
(* figure (a member lacking either sorts first), and walking from the      *)
(* largest difference down the first k contribute their satisfaction, the  *)
(* others their dissatisfaction; any missing contribution voids the figure *)
(***************************************************************************)
EDProj(d, fld) == CASE fld = "c" -> d.c [] fld = "w" -> d.w [] fld = "s" -> d.s [] fld = "x" -> d.x [] fld = "o" -> d.o
EDHasKey(p) == p[1].some /\ p[2].some
EDKeyOf(p, fld) == EDProj(p[1], fld) - EDProj(p[2], fld)
\* sort_by_key with Option keys: None < Some(_), stable
EDBefore(p, q, fld) == IF ~EDHasKey(q) THEN FALSE ELSE IF ~EDHasKey(p) THEN TRUE ELSE EDKeyOf(p, fld) < EDKeyOf(q, fld)
RECURSIVE EDInsertSorted(_, _, _)
\* insert p after every element that is not strictly greater (stability)
EDInsertSorted(sorted, p, fld) ==
  IF sorted = <<>> THEN <<p>>
  ELSE IF EDBefore(p, Head(sorted), fld) THEN <<p>> \o sorted
  ELSE <<Head(sorted)>> \o EDInsertSorted(Tail(sorted), p, fld)
RECURSIVE EDSortBy(_, _, _, _)
EDSortBy(ps, q, fld, acc) == IF q > Len(ps) THEN acc ELSE EDSortBy(ps, q + 1, fld, EDInsertSorted(acc, ps[q], fld))
\* the vector is sorted anew for every figure, starting from the order the previous figure left
RECURSIVE EDFoldRev(_, _, _, _, _, _)
\* walk sorted[q] from the end (i = 0-based rank); acc = -1 encodes None
EDFoldRev(sorted, i, k, fld, acc, n) ==
  IF i = n THEN acc
  ELSE IF acc = -1 THEN -1
  ELSE LET p == sorted[n - i]
           d == IF i < k THEN p[1] ELSE p[2]
       IN IF ~d.some THEN -1
          ELSE EDFoldRev(sorted, i + 1, k, fld,
                       IF fld = "x" THEN EDMax2(acc, EDProj(d, fld) + (IF acc > 0 THEN 1 ELSE 0)) ELSE acc + EDProj(d, fld), n)
EDThreshSatData(ps, k) ==
  LET n  == Len(ps)
      s1 == EDSortBy(ps, 1, "c", <<>>)
      s2 == EDSortBy(s1, 1, "w", <<>>)
      s3 == EDSortBy(s2, 1, "s", <<>>)
      s4 == EDSortBy(s3, 1, "x", <<>>)
      s5 == EDSortBy(s4, 1, "o", <<>>)
      c == EDFoldRev(s1, 0, k, "c", 0, n)
      w == EDFoldRev(s2, 0, k, "w", 0, n)
      s == EDFoldRev(s3, 0, k, "s", 0, n)
      x == EDFoldRev(s4, 0, k, "x", 0, n)
      o == EDFoldRev(s5, 0, k, "o", 0, n)
  IN IF c = -1 \/ w = -1 \/ s = -1 \/ x = -1 \/ o = -1 THEN EDNoD ELSE EDD(c, w, s, x, o)
RECURSIVE EDThreshDis(_, _, _)
EDThreshDis(es, q, acc) ==
  IF q > Len(es) THEN acc
  ELSE EDThreshDis(es, q + 1,
         IF ~acc.some \/ ~es[q].dis.some THEN EDNoD
         ELSE EDD(acc.c + es[q].dis.c, acc.w + es[q].dis.w, acc.s + es[q].dis.s, EDMax2(acc.x, es[q].dis.x), acc.o + es[q].dis.o))
RECURSIVE EDSumPk(_, _)
EDSumPk(es, q) == IF q > Len(es) THEN 0 ELSE es[q].pk + EDSumPk(es, q + 1)
RECURSIVE EDSumOps(_, _)
EDSumOps(es, q) == IF q > Len(es) THEN 0 ELSE es[q].ops + EDSumOps(es, q + 1)

RECURSIVE Ext(_, _)
Ext(m, ctx) ==
  LET f == m.f
      n == Len(m.ks)
      k == m.n
      kb == EDKeyBytes(ctx)
      sb == EDSigBytes(ctx)
  IN
  CASE f = "0" -> EDRec(1, FALSE, 0, EDNoD, EDD(0, 0, 0, 1, 0))
    [] f = "1" -> EDRec(1, FALSE, 0, EDD(0, 0, 0, 1, 0), EDNoD)
    [] f = "pk_k" -> EDRec(kb, FALSE, 0, EDD(1, sb, sb, 1, 0), EDD(1, 1, 1, 1, 0))
    [] f = "pk_h" -> EDRec(24, FALSE, 3, EDD(2, kb + sb, kb + sb, 2, 0), EDD(2, kb + 1, kb + 1, 2, 0))
    [] f \in {"multi", "sortedmulti"} ->
         EDRec(EDNumCost(k, n) + 34 * n + 1, TRUE, 1, EDD(k + 1, 1 + 73 * k, 1 + 73 * k, n, n), EDD(k + 1, 1 + k, 1 + k, n, n))
    [] f \in {"multi_a", "sortedmulti_a"} ->
         EDRec(EDNumCost(k, n) + 33 * n + (n - 1) + 1, TRUE, 0, EDD(n, (n - k) + 66 * k, 0, 2, 0), EDD(n, n, 0, 2, 0))
    [] f \in {"sha256", "hash256"} -> EDRec(33 + 6, TRUE, 4, EDD(1, 33, 33, 2, 0), EDD(2, 33, 33, 2, 0))
    [] f \in {"ripemd160", "hash160"} -> EDRec(21 + 6, TRUE, 4, EDD(1, 33, 33, 2, 0), EDD(2, 33, 33, 2, 0))
    [] f \in {"after", "older"} -> EDRec(NumPushLen(m.n) + 1, FALSE, 1, EDD(0, 0, 0, 1, 0), EDNoD)
    [] f = "a" -> LET x == Ext(m.xs[1], ctx) IN EDRec(x.pk + 2, FALSE, 2 + x.ops, x.sat, x.dis)
    [] f = "s" -> LET x == Ext(m.xs[1], ctx) IN EDRec(x.pk + 1, x.fv, 1 + x.ops, x.sat, x.dis)
    [] f = "c" -> LET x == Ext(m.xs[1], ctx) IN EDRec(x.pk + 1, TRUE, 1 + x.ops, x.sat, x.dis)
    [] f = "d" -> LET x == Ext(m.xs[1], ctx) IN
                  EDRec(x.pk + 3, FALSE, 3 + x.ops,
                    IF x.sat.some THEN EDD(x.sat.c + 1, x.sat.w + 2, x.sat.s + 1, EDMax2(1, x.sat.x), x.sat.o) ELSE EDNoD,
                    EDD(1, 1, 1, 1, 0))
    [] f = "v" -> LET x == Ext(m.xs[1], ctx) IN
                  EDRec(x.pk + (IF x.fv THEN 0 ELSE 1), FALSE, (IF x.fv THEN 0 ELSE 1) + x.ops, x.sat, EDNoD)
    [] f = "j" -> LET x == Ext(m.xs[1], ctx) IN EDRec(x.pk + 4, FALSE, 4 + x.ops, x.sat, EDD(1, 1, 1, 1, 0))
    [] f = "n" -> LET x == Ext(m.xs[1], ctx) IN EDRec(x.pk + 1, FALSE, 1 + x.ops, x.sat, x.dis)
    [] f = "and_b" -> LET l == Ext(m.xs[1], ctx)  r == Ext(m.xs[2], ctx) IN
                      EDRec(l.pk + r.pk + 1, FALSE, 1 + l.ops + r.ops, EDConcat(l.sat, r.sat, 1), EDConcat(l.dis, r.dis, 1))
    [] f = "and_v" -> LET l == Ext(m.xs[1], ctx)  r == Ext(m.xs[2], ctx) IN
                      EDRec(l.pk + r.pk, r.fv, l.ops + r.ops, EDConcat(l.sat, r.sat, 0), EDNoD)
    [] f = "or_b" -> LET l == Ext(m.xs[1], ctx)  r == Ext(m.xs[2], ctx) IN
                     EDRec(l.pk + r.pk + 1, FALSE, 1 + l.ops + r.ops,
                       EDFMax(EDConcat(l.sat, r.dis, 1), EDConcat(l.dis, r.sat, 1)), EDConcat(l.dis, r.dis, 1))
    [] f = "or_d" -> LET l == Ext(m.xs[1], ctx)  r == Ext(m.xs[2], ctx) IN
                     EDRec(l.pk + r.pk + 3, FALSE, 3 + l.ops + r.ops,
                       EDFMax(l.sat, EDConcat(l.dis, r.sat, 0)), EDConcat(l.dis, r.dis, 0))
    [] f = "or_c" -> LET l == Ext(m.xs[1], ctx)  r == Ext(m.xs[2], ctx) IN
                     EDRec(l.pk + r.pk + 2, FALSE, 2 + l.ops + r.ops, EDFMax(l.sat, EDConcat(l.dis, r.sat, 0)), EDNoD)
    [] f = "or_i" -> LET l == Ext(m.xs[1], ctx)  r == Ext(m.xs[2], ctx) IN
                     EDRec(l.pk + r.pk + 3, FALSE, 3 + l.ops + r.ops,
                       EDFMax(EDMapD(l.sat, 1, 2, 1), EDMapD(r.sat, 1, 1, 1)), EDFMax(EDMapD(l.dis, 1, 2, 1), EDMapD(r.dis, 1, 1, 1)))
    [] f = "andor" -> LET a == Ext(m.xs[1], ctx)  b == Ext(m.xs[2], ctx)  c == Ext(m.xs[3], ctx) IN
                      EDRec(a.pk + b.pk + c.pk + 3, FALSE, 3 + a.ops + b.ops + c.ops,
                        EDFMax(EDConcat(a.sat, b.sat, 0), EDConcat(a.dis, c.sat, 0)), EDConcat(a.dis, c.dis, 0))
    [] f = "thresh" ->
         LET es == [q \in 1..Len(m.xs) |-> Ext(m.xs[q], ctx)]
             nn == Len(m.xs)
         IN EDRec(1 + NumPushLen(m.n) + EDSumPk(es, 1) + nn - 1, TRUE, EDSumOps(es, 1) + 1 + (nn - 1),
              EDThreshSatData([q \in 1..nn |-> <<es[q].sat, es[q].dis>>], m.n),
              EDThreshDis(es, 1, EDD(0, 0, 0, 0, 0)))

(***************************************************************************)
(* Descriptor level: max_weight_to_satisfy of the output types that carry  *)
(* a miniscript, as the wrappers compute it from the figures above         *)
(* (bare.rs, sh.rs, segwitv0.rs, tr/mod.rs): the weight the satisfied      *)
(* input adds over the empty one.  -1 where the library has no figure.     *)
(* `depth` = Merkle depth of the leaf (tr).                                *)
(***************************************************************************)
EDVarintLen(n) == IF n < 253 THEN 1 ELSE IF n < 65536 THEN 3 ELSE 5
EDPushOpLen(n) == IF n < 76 THEN 1 ELSE IF n < 256 THEN 2 ELSE IF n < 65536 THEN 3 ELSE 5
EDWshWeight(e) == (EDVarintLen(e.sat.c + 1) - 1) + EDVarintLen(e.pk) + e.pk + e.sat.w
DescMaxWeight(wrap, m, ctx, depth) ==
  LET e == Ext(m, ctx) IN
  IF ~e.sat.some THEN -1
  ELSE CASE wrap = "bare" -> 4 * ((EDVarintLen(e.sat.s) - 1) + e.sat.s)
         [] wrap = "sh" -> LET ss == EDPushOpLen(e.pk) + e.pk + e.sat.s IN 4 * ((EDVarintLen(ss) - 1) + ss)
         [] wrap = "wsh" -> EDWshWeight(e)
         [] wrap = "shwsh" -> 4 * ((EDVarintLen(35) - 1) + 35) + EDWshWeight(e)
         [] wrap \in {"tr", "tr33"} ->
              LET cb == 33 + 32 * depth IN
              (EDVarintLen(e.sat.c + 2) - 1) + e.sat.w + EDVarintLen(e.pk) + e.pk + EDVarintLen(cb) + cb
         [] OTHER -> -1
=============================================================================
