----------------------------- MODULE Trace_TrSat -----------------------------
(***************************************************************************)
(* Satisfaction of taproot descriptors with a script tree.  Per (tree,     *)
(* world, mode, route) the harness reports what the real library returned; *)
(* TLC judges it against L1:                                               *)
(*   C01  a returned spend verifies: key path = one good signature of the  *)
(*        internal key; script path = the executed script is the encoding  *)
(*        of one of the leaves, the control block commits to the output    *)
(*        key (alpha fact) and the Script VM accepts under tapscript rules *)
(*   C02  "no satisfaction" only if the internal key cannot sign and no    *)
(*        leaf has a satisfaction in SatSet (non-malleable: no sane leaf   *)
(*        with all preimages known has one)                                *)
(*   C09  max_weight_to_satisfy and the plan's sizes bound what was built  *)
(***************************************************************************)
EXTENDS Verify, Policy, Json, IOUtils, SequencesExt, FiniteSetsExt

ASSUME TLCSet(1, ndJsonDeserialize(IOEnv.TRACE))
Rec == TLCGet(1)
NB == 64

VARIABLES b, i
Init == b = 0 /\ i = 0
Next == \/ b = 0 /\ b' \in 1..NB /\ i' = 0
        \/ b > 0 /\ i = 0 /\ b' = b /\ i' \in {j \in 1..Len(Rec) : j % NB = b - 1}

World(wj) == [sigs |-> Range(wj.sigs), pre |-> Range(wj.pre), env |-> wj.env]
Report(prop, clause, ev, j, detail) == PrintT("VERDICT " \o ToJson(<<prop, clause, ev.id, j, detail>>))

HashesIn(m) ==
  LET RECURSIVE H(_)
      H(x) == (IF x.f \in HashFrags THEN {<<x.f, x.n>>} ELSE {}) \cup UNION {H(x.xs[q]) : q \in 1..Len(x.xs)}
  IN H(m)

JudgeRes(ev, j) ==
  LET r == ev.res[j]
      w == World(r.w)
      n == Len(ev.leaves)
      keypath == ev.ik \in w.sigs
  IN
  IF r.r = "panic" THEN Report("C11", "panic", ev, j, r.msg)
  ELSE IF r.r = "ok" THEN
    LET inp == r.inp
        env == EnvOf(w, inp.rules, TRUE)
        why == VerifyWhy(inp, env)
    IN
    /\ (why = "" \/ Report("C01", "vm_reject", ev, j, why))
    /\ ((IF ev.kind = "tr" THEN inp.kind \in {"trkey", "trscript"} ELSE IF ev.kind = "pkhU" THEN inp.kind = "pkh" ELSE inp.kind = ev.kind)
        \/ Report("C01", "spend_of_another_output_type", ev, j, inp.kind))
    /\ (ev.kind = "tr" \/ keypath \/ Report("C01", "key_spend_without_signature", ev, j, ""))
    /\ (inp.kind # "trkey" \/ keypath \/ Report("C01", "key_path_spend_without_internal_key_signature", ev, j, ""))
    /\ (inp.kind # "trscript" \/ (\E q \in 1..n : Encode(ev.leaves[q], "tap") = inp.script)
        \/ Report("C01", "executed_script_is_not_a_leaf", ev, j, ""))
    /\ (why # "" \/
        /\ (ev.st.max_weight < 0 \/ r.real_weight <= ev.st.max_weight
            \/ Report("C09", "max_weight", ev, j, <<r.real_weight, ev.st.max_weight>>))
        /\ ("plan" \notin DOMAIN r \/
            /\ (inp.rules \notin {"segwitv0", "tap"} \/ r.plan.wit_size >= r.real_wit_bytes + 1 \/ Report("C09", "plan_wit_size", ev, j, <<r.real_wit_bytes + 1, r.plan.wit_size>>))
            /\ (r.plan.ssig_size >= r.real_ssig_bytes + 1 \/ Report("C09", "plan_ssig_size", ev, j, <<r.real_ssig_bytes + 1, r.plan.ssig_size>>))))
  ELSE \* "none"
    IF r.mode = "mall"
    THEN ((~keypath /\ \A q \in 1..n : SatSet(ev.leaves[q], w, "tap") = {}) \/ Report("C02", "missed_mall", ev, j, r.route))
    ELSE ((~keypath /\ \A q \in 1..n : ~(ev.st.sane[q] /\ HashesIn(ev.leaves[q]) \subseteq w.pre /\ SatSet(ev.leaves[q], w, "tap") # {}))
          \/ Report("C02", "missed_nonmall", ev, j, r.route))

\* C13 on key-type and taproot outputs: the interpreter on the library's own satisfaction and on
\* mutations of it.  Accepts => the real scripts accept (judged in a version-2 transaction: the
\* interpreter is not told the version); it accepts what the library built for sane descriptors.
JudgeInterp(ev, j) ==
  LET r == ev.res[j]
      w == World(r.w)
      sane == \A q \in 1..Len(ev.st.sane) : ev.st.sane[q]
  IN
  "interp" \notin DOMAIN r \/
  \A q \in 1..Len(r.interp) :
    LET x == r.interp[q]
        env == [EnvOf(w, x.inp.rules, FALSE) EXCEPT !.ver = 2]
        why == VerifyWhy(x.inp, env)
    IN
    /\ (x.res.stage # "PANIC" \/ Report("C11", "interpreter_panic", ev, j, x.mut))
    /\ (~x.res.ok \/ why = "" \/ Report("C13", "accepts_invalid_spend", ev, j, <<x.mut, why>>))
    /\ (x.mut # "id" \/ ~sane \/ r.mode # "nonmall" \/ x.res.ok \/ Report("C13", "rejects_library_satisfaction", ev, j, x.res.err))

\* C17: completing the plan built from the same assets gives exactly what the satisfier gives
\* (results come in the order desc, plan for every world and mode)
JudgePlanEq(ev, j) ==
  LET r == ev.res[j] IN
  r.route # "plan" \/ j = 1 \/
  LET s == ev.res[j - 1] IN
  s.route # "desc" \/ s.mode # r.mode \/ s.w # r.w \/
  /\ ((r.r = "ok") = (s.r = "ok") \/ r.r = "panic" \/ s.r = "panic"
      \/ Report("C17", IF r.r = "ok" THEN "plan_without_satisfaction" ELSE "satisfaction_without_plan", ev, j, r.mode))
  /\ (r.r # "ok" \/ s.r # "ok" \/ (r.inp.stack = s.inp.stack /\ r.inp.script = s.inp.script /\ r.inp.kind = s.inp.kind)
      \/ Report("C17", "plan_completion_differs_from_satisfier", ev, j, r.mode))

\* C07 on the descriptor: when the library lifts it, the policy is true in exactly the worlds in
\* which the output can be spent (key path or some leaf); refusing to lift is always allowed
JudgeLift(ev) ==
  /\ (ev.lift.st # "panic" \/ Report("C11", "tr_lift_panic", ev, 0, ""))
  /\ (ev.lift.st # "ok" \/
      \A j \in 1..Len(ev.res) :
         LET w == World(ev.res[j].w) IN
         Eval(ev.lift.pol, w) = ((ev.ik \in w.sigs) \/ (\E q \in 1..Len(ev.leaves) : Spendable(ev.leaves[q], w, "tap")))
         \/ Report("C07", "tr_lift_differs", ev, j, <<w.sigs, w.pre, w.env.lock, w.env.seq>>))

JudgeEvent(ev) ==
  IF ev.parse # "ok"
  THEN Report("INFO", "parse_" \o ev.parse, ev, 0, ev.msg)
  ELSE /\ \A j \in 1..Len(ev.res) : JudgeRes(ev, j) /\ JudgeInterp(ev, j) /\ JudgePlanEq(ev, j)
       /\ JudgeLift(ev)

Inv == i > 0 => JudgeEvent(Rec[i])
Post == PrintT("TRACE_DONE " \o ToJson(<<Len(Rec), TLCGet("stats").distinct>>))
=============================================================================
