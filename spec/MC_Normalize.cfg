INIT Init
NEXT Next
INVARIANTS Lemma EntLemma FilterLemma MinKeysLemma
CHECK_DEADLOCK FALSE
