INIT Init
NEXT Next
INVARIANTS Lemma EntLemma
CHECK_DEADLOCK FALSE
