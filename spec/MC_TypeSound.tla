----------------------------- MODULE MC_TypeSound -----------------------------
(* L1 lemma: the specification's own type tables (MsSpec!TypeOf) are sound for  *)
(* the specification's own encoding (MsSpec!Encode) executed by Script!Run:     *)
(* the same judge as C06, fed with Encode/TypeOf instead of library outputs.    *)
(* Guards the transcription of the tables (it caught a wrong `e` rule of or_d). *)
EXTENDS TypeSoundCore, AstGen

ASSUME TLCSet(1, SetToSeq({x \in WTUpTo(MaxNodes) : KeyCanonical(x.a)}))
Cases == TLCGet(1)
Rec == [q \in 1..Len(Cases) |->
          [id |-> ToString(q), ctx |-> Ctx, ast |-> Cases[q].a, have |-> TRUE, dom |-> "wt", script |-> Encode(Cases[q].a, Ctx),
           ty |-> [b |-> Cases[q].t.b, fl |-> SetToSeq(Cases[q].t.fl)]]]
NB == 64

VARIABLES b, i
Init == b = 0 /\ i = 0
Next == \/ b = 0 /\ b' \in 1..NB /\ i' = 0
        \/ b > 0 /\ i = 0 /\ b' = b /\ i' \in {j \in 1..Len(Cases) : j % NB = b - 1}

Inv == i > 0 => (~Relevant(Rec[i]) \/ JudgeEvent(Rec[i]))
Post == PrintT("TRACE_DONE " \o ToJson(<<Len(Cases), TLCGet("stats").distinct>>))
=============================================================================
