------------------------------- MODULE Taproot -------------------------------
(***************************************************************************)
(* L1: BIP341 script-tree commitment algebra over an uninterpreted,        *)
(* injective hash with the sorted-pair rule.                               *)
(* Trees: [t |-> "leaf", k |-> id, xs |-> <<>>] or                         *)
(*        [t |-> "node", k |-> 0,  xs |-> <<left, right>>].                *)
(* The commitment of a sub-tree is a canonical TERM: a leaf commits to its *)
(* script id, a branch to the UNORDERED pair of its children's commitments *)
(* (TapBranch hashes the two child hashes in sorted order, so left/right   *)
(* order is not committed to).  Terms are rendered as strings so that the  *)
(* harness can name real hashes by the sub-tree they commit to.            *)
(***************************************************************************)
EXTENDS Integers, Sequences, FiniteSets, TLC

TLeaf(k) == [t |-> "leaf", k |-> k, xs |-> <<>>]
TNode(l, r) == [t |-> "node", k |-> 0, xs |-> <<l, r>>]

\* canonical term of a sub-tree commitment, as a string; branches order their children's
\* terms so that the pair is unordered.  Lexicographic order on strings is not available in
\* TLA+, so the unordered pair is rendered by a *structural* order: (size, then term of the
\* smaller child recursively) computed by Less below.
RECURSIVE Size(_)
Size(tr) == IF tr.t = "leaf" THEN 1 ELSE Size(tr.xs[1]) + Size(tr.xs[2])

RECURSIVE Cmp(_, _)
\* total order on commitment-equivalence classes of trees: -1, 0, 1.  Trees that differ only
\* by swapping children of some branch compare 0 (they commit to the same hash).
RECURSIVE Canon(_)
\* canonical representative: children ordered by Cmp
\* NB: TLC may re-evaluate a LET definition or an operator argument at every reference, which
\* is exponential in recursive definitions that mention a recursive result twice; values are
\* therefore bound through singleton set comprehensions, which are evaluated exactly once.
Canon(tr) ==
  IF tr.t = "leaf" THEN tr
  ELSE CHOOSE r \in {IF Cmp(p[1], p[2]) <= 0 THEN TNode(p[1], p[2]) ELSE TNode(p[2], p[1])
                      : p \in {<<Canon(tr.xs[1]), Canon(tr.xs[2])>>}} : TRUE
\* Cmp on canonical trees
Cmp(a, b) ==
  IF a.t = "leaf" /\ b.t = "leaf" THEN (IF a.k < b.k THEN -1 ELSE IF a.k = b.k THEN 0 ELSE 1)
  ELSE IF a.t = "leaf" THEN -1
  ELSE IF b.t = "leaf" THEN 1
  ELSE CHOOSE r \in {IF c1 # 0 THEN c1 ELSE Cmp(a.xs[2], b.xs[2]) : c1 \in {Cmp(a.xs[1], b.xs[1])}} : TRUE

RECURSIVE TermC(_)
TermC(tr) == IF tr.t = "leaf" THEN "L" \o ToString(tr.k)
             ELSE "B(" \o TermC(tr.xs[1]) \o "," \o TermC(tr.xs[2]) \o ")"
\* the commitment term of a tree (what its TapNodeHash commits to)
Commit(tr) == TermC(Canon(tr))

\* leaves in depth-first pre-order with their depth and merkle path (sibling commitments,
\* leaf to root)
RECURSIVE LeavesOfT(_, _, _)
LeavesOfT(tr, depth, path) ==
  IF tr.t = "leaf" THEN <<[k |-> tr.k, depth |-> depth, path |-> path]>>
  ELSE LeavesOfT(tr.xs[1], depth + 1, <<Commit(tr.xs[2])>> \o path)
       \o LeavesOfT(tr.xs[2], depth + 1, <<Commit(tr.xs[1])>> \o path)
LeavesT(tr) == LeavesOfT(tr, 0, <<>>)

\* depth list (pre-order sequence of [d, k]) <-> tree; deep trees travel as depth lists
\* because JSON readers limit nesting
RECURSIVE DepthListOf(_, _)
DepthListOf(tr, depth) ==
  IF tr.t = "leaf" THEN <<[d |-> depth, k |-> tr.k]>>
  ELSE DepthListOf(tr.xs[1], depth + 1) \o DepthListOf(tr.xs[2], depth + 1)
DepthList(tr) == DepthListOf(tr, 0)
RECURSIVE BuildDL(_, _, _)
BuildDL(dl, pos, depth) ==
  IF dl[pos].d = depth THEN [tr |-> TLeaf(dl[pos].k), next |-> pos + 1]
  ELSE CHOOSE r \in UNION {{[tr |-> TNode(a.tr, c.tr), next |-> c.next] : c \in {BuildDL(dl, a.next, depth + 1)}}
                          : a \in {BuildDL(dl, pos, depth + 1)}} : TRUE
FromDL(dl) == BuildDL(dl, 1, 0).tr

RECURSIVE Height(_)
Height(tr) == IF tr.t = "leaf" THEN 0
              ELSE CHOOSE r \in {1 + (IF p[1] > p[2] THEN p[1] ELSE p[2]) : p \in {<<Height(tr.xs[1]), Height(tr.xs[2])>>}} : TRUE

MAX_DEPTH == 128
=============================================================================
