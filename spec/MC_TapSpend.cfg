CONSTANTS
  MaxLeaves = 6
  ChainDepths = {1, 2, 3, 17, 40}
  TreeSet <- MCTrees
INIT Init
NEXT Next
INVARIANTS BuilderInv IterInv FnInv
CHECK_DEADLOCK FALSE
