CONSTANT MaxLen = 3
INIT Init
NEXT Next
INVARIANTS Injective PrefixClosed
CHECK_DEADLOCK FALSE
