
