-------------------------------- MODULE Psbt --------------------------------
(***************************************************************************)
(* L2: the life cycle of a multi-input PSBT (src/psbt/mod.rs +             *)
(* finalizer.rs), one action per public operation.                         *)
(*                                                                         *)
(* State, per input i:                                                     *)
(*   upd[i]    update_input_with_descriptor has recorded scripts / origins *)
(*   sigs[i]   keys with a signature recorded (partial_sigs / tap sigs)    *)
(*   pre[i]    hashes with a recorded preimage                             *)
(*   fin[i]    [f, w]: f = finalised, w = the final (abstract) witness     *)
(* The descriptor of each input and the transaction's locks are constants. *)
(*                                                                         *)
(* Finalisation is specified permissively where C14 is silent: an input    *)
(* either stays untouched (failure) or becomes final with a witness that   *)
(* VerifyInput accepts, and its signer fields are cleared.  Which valid    *)
(* witness is chosen is left open (drift), except that it must be a        *)
(* function of the set state (order independence).                         *)
(***************************************************************************)
EXTENDS Verify, Worlds, FiniteSetsExt

CONSTANTS
  NInputs,    \* number of inputs
  Desc,       \* Desc[i] = [ctx, wrap, ast, kind] descriptor of input i
  TxEnv       \* TxEnv[i] = Env record of input i (lock, seq, ver; rules filled per kind)

VARIABLES upd, sigs, pre, fin, extracted

NoFin  == [f |-> FALSE, w |-> <<>>]
Fin(w) == [f |-> TRUE, w |-> w]

vars == <<upd, sigs, pre, fin, extracted>>
Inputs == 1..NInputs

KeysOfInput(i)   == KeysOf(Desc[i].ast)
HashesOfInput(i) == HashesOf(Desc[i].ast)

WorldOf(i) == [sigs |-> sigs[i], pre |-> pre[i], env |-> TxEnv[i]]

\* the input can be finalised at all: scripts recorded and some witness from the recorded
\* assets exists (L1 ground truth; whether the library finds it is C02's question)
Finalisable(i) == upd[i] /\ SatSet(Desc[i].ast, WorldOf(i), Desc[i].ctx) # {}

\* the witnesses a successful finalisation may install
ValidFinals(i) == SatSet(Desc[i].ast, WorldOf(i), Desc[i].ctx)

TypeOK ==
  /\ upd \in [Inputs -> BOOLEAN]
  /\ \A i \in Inputs : sigs[i] \subseteq KeysOfInput(i) /\ pre[i] \subseteq HashesOfInput(i)
  /\ extracted \in BOOLEAN

Init ==
  /\ upd = [i \in Inputs |-> FALSE]
  /\ sigs = [i \in Inputs |-> {}]
  /\ pre = [i \in Inputs |-> {}]
  /\ fin = [i \in Inputs |-> NoFin]
  /\ extracted = FALSE

Update(i) ==
  /\ ~fin[i].f
  /\ upd' = [upd EXCEPT ![i] = TRUE]
  /\ UNCHANGED <<sigs, pre, fin, extracted>>

AddSig(i, k) ==
  /\ ~fin[i].f /\ k \in KeysOfInput(i)
  /\ sigs' = [sigs EXCEPT ![i] = @ \cup {k}]
  /\ UNCHANGED <<upd, pre, fin, extracted>>

AddPre(i, h) ==
  /\ ~fin[i].f /\ h \in HashesOfInput(i)
  /\ pre' = [pre EXCEPT ![i] = @ \cup {h}]
  /\ UNCHANGED <<upd, sigs, fin, extracted>>

\* finalising input i with choice c (NoFin = failure: untouched; else Fin(valid witness))
Takes(i, c) == ~fin[i].f /\ c.f
ChoiceOK(i, c) == Takes(i, c) => (Finalisable(i) /\ c.w \in ValidFinals(i))

ApplyFinal(W) ==
  /\ \A i \in Inputs : ChoiceOK(i, W[i])
  /\ fin'  = [i \in Inputs |-> IF Takes(i, W[i]) THEN W[i] ELSE fin[i]]
  /\ sigs' = [i \in Inputs |-> IF Takes(i, W[i]) THEN {} ELSE sigs[i]]
  /\ pre'  = [i \in Inputs |-> IF Takes(i, W[i]) THEN {} ELSE pre[i]]
  /\ upd'  = [i \in Inputs |-> IF Takes(i, W[i]) THEN FALSE ELSE upd[i]]

FinChoices(i) == {NoFin} \cup (IF ~fin[i].f /\ upd[i] THEN {Fin(w) : w \in ValidFinals(i)} ELSE {})

\* finalize_mut / finalize_mall_mut: every input independently
Finalize ==
  /\ \E W \in [Inputs -> UNION {FinChoices(i) : i \in Inputs}] :
       /\ \A i \in Inputs : W[i] \in FinChoices(i)
       /\ ApplyFinal(W)
  /\ UNCHANGED extracted

\* finalize_inp_mut / finalize_inp_mall_mut: one input, the others untouched
FinalizeInp(i) ==
  /\ \E w \in FinChoices(i) : ApplyFinal([j \in Inputs |-> IF j = i THEN w ELSE NoFin])
  /\ UNCHANGED extracted

AllFinal == \A i \in Inputs : fin[i].f

\* extract succeeds exactly when every input is final and leaves the PSBT unchanged
Extract ==
  /\ extracted' = AllFinal
  /\ UNCHANGED <<upd, sigs, pre, fin>>

Next ==
  \/ \E i \in Inputs : Update(i) \/ FinalizeInp(i)
  \/ \E i \in Inputs : \E k \in KeysOfInput(i) : AddSig(i, k)
  \/ \E i \in Inputs : \E h \in HashesOfInput(i) : AddPre(i, h)
  \/ Finalize \/ Extract

Spec == Init /\ [][Next]_vars

(***************************************************************************)
(* Properties of C14 on the model                                          *)
(***************************************************************************)
\* a final input is never altered again
FinalStable == [][\A i \in Inputs : fin[i].f => fin'[i] = fin[i]]_vars
\* a final witness really spends
FinalValid == \A i \in Inputs : fin[i].f =>
                 ScriptAccepts(Encode(Desc[i].ast, Desc[i].ctx), fin[i].w, [TxEnv[i] EXCEPT !.std = TRUE])
\* an extracted transaction exists only when all inputs are final
ExtractValid == extracted => AllFinal
\* signer data never survives finalisation
SignerFieldsCleared == \A i \in Inputs : fin[i].f => sigs[i] = {} /\ pre[i] = {}
=============================================================================
