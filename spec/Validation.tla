----------------------------- MODULE Validation -----------------------------
(***************************************************************************)
(* L1: what it means for a miniscript to obey its script context, and the  *)
(* defect each validation switch names, defined on the AST by the          *)
(* specification's static notions (independent of the library's code).     *)
(***************************************************************************)
EXTENDS Policy

Switches == {"allow_compressed_keys", "allow_duplicate_keys", "allow_dup_if", "allow_malleability",
             "allow_mixed_time_locks", "allow_multi", "allow_multi_a", "allow_or_i", "allow_sigless_branch",
             "allow_non_b", "allow_uncompressed_keys", "allow_unsatisfiable", "allow_x_only_keys"}

RECURSIVE HasFrag(_, _)
HasFrag(m, f) == m.f = f \/ \E q \in 1..Len(m.xs) : HasFrag(m.xs[q], f)

HasDupKeys(m) == LET ks == KeysPre(m) IN \E p, q \in 1..Len(ks) : p < q /\ ks[p] = ks[q]

(***************************************************************************)
(* Time-lock mixing, the specification's static "k" property: a record     *)
(* [g, h, i, j, k] = contains relative-time, relative-height, absolute-    *)
(* time, absolute-height locks; k = no conjunction mixes units.            *)
(***************************************************************************)
TL0 == [g |-> FALSE, h |-> FALSE, i |-> FALSE, j |-> FALSE, k |-> TRUE]
TLOr(a, c) == [g |-> a.g \/ c.g, h |-> a.h \/ c.h, i |-> a.i \/ c.i, j |-> a.j \/ c.j, k |-> a.k /\ c.k]
TLAnd(a, c) == [TLOr(a, c) EXCEPT !.k = a.k /\ c.k /\ ~((a.g /\ c.h) \/ (a.h /\ c.g) \/ (a.i /\ c.j) \/ (a.j /\ c.i))]
RECURSIVE TL(_)
RECURSIVE TLThresh(_, _, _, _)
TLThresh(xs, q, k, acc) ==
  IF q > Len(xs) THEN acc
  ELSE TLThresh(xs, q + 1, k, IF k > 1 THEN TLAnd(acc, TL(xs[q])) ELSE TLOr(acc, TL(xs[q])))
TL(m) ==
  LET f == m.f IN
  CASE f = "older" -> [TL0 EXCEPT !.g = (m.n \div SEQ_TYPE_FLAG) % 2 = 1, !.h = (m.n \div SEQ_TYPE_FLAG) % 2 = 0]
    [] f = "after" -> [TL0 EXCEPT !.i = m.n >= LOCKTIME_THRESHOLD, !.j = m.n < LOCKTIME_THRESHOLD]
    [] f \in Wrappers -> TL(m.xs[1])
    [] f \in {"and_v", "and_b"} -> TLAnd(TL(m.xs[1]), TL(m.xs[2]))
    [] f \in {"or_b", "or_c", "or_d", "or_i"} -> TLOr(TL(m.xs[1]), TL(m.xs[2]))
    [] f = "andor" -> TLOr(TLAnd(TL(m.xs[1]), TL(m.xs[2])), TL(m.xs[3]))
    [] f = "thresh" -> TLThresh(m.xs, 1, m.n, TL0)
    [] OTHER -> TL0
MixedTimeLocks(m) == ~TL(m).k

(***************************************************************************)
(* Static satisfiability: some world (all assets, some lock setting) has a *)
(* satisfaction.                                                           *)
(***************************************************************************)
\* (the worlds holding every asset are built directly: filtering WorldsOfCtx would enumerate all
\* subsets of the keys first, 2^17 of them for a 17-key multisig)
FullWorlds(m, ctx) ==
  {[sigs |-> KeysOf(m), pre |-> HashesOf(m), env |-> Env(RulesOf(ctx), TRUE, l, s, v)]
     : l \in LockCands(m), s \in SeqCands(m), v \in VerCands(m)}
Satisfiable(m, ctx) == \E w \in FullWorlds(m, ctx) : SatSet(m, w, ctx) # {}

\* The defect behind `allow_unsatisfiable` is structural: no satisfaction exists even when every
\* time lock, taken on its own, is met.  A script whose only obstacle is that its paths need
\* locks of conflicting units has the defect of `allow_mixed_time_locks`, not this one (the
\* property lists the two separately; demanding both from this switch would ask for more than
\* it states).  Locks are therefore replaced by the constant 1 before asking for a satisfaction.
RECURSIVE NoLocks(_)
NoLocks(m) ==
  IF m.f \in {"older", "after"} THEN Leaf("1", 0)
  ELSE IF Len(m.xs) = 0 THEN m
  ELSE [m EXCEPT !.xs = [q \in 1..Len(m.xs) |-> NoLocks(m.xs[q])]]
StructurallySatisfiable(m, ctx) == Satisfiable(NoLocks(m), ctx)

\* does switching `sw` off reject m?  (t = the type of m as the library sees it)
Defect(sw, m, t, ctx) ==
  CASE sw = "allow_duplicate_keys" -> HasDupKeys(m)
    [] sw = "allow_dup_if" -> HasFrag(m, "d")
    [] sw = "allow_or_i" -> HasFrag(m, "or_i")
    [] sw = "allow_multi" -> HasFrag(m, "multi") \/ HasFrag(m, "sortedmulti")
    [] sw = "allow_multi_a" -> HasFrag(m, "multi_a") \/ HasFrag(m, "sortedmulti_a")
    [] sw = "allow_malleability" -> "m" \notin t.fl
    [] sw = "allow_sigless_branch" -> "s" \notin t.fl
    [] sw = "allow_non_b" -> t.b # "B"
    [] sw = "allow_mixed_time_locks" -> MixedTimeLocks(m)
    [] sw = "allow_unsatisfiable" -> ~StructurallySatisfiable(m, ctx)
    \* key kinds of the harness universe: x-only in tapscript, compressed elsewhere
    [] sw = "allow_x_only_keys" -> ctx = "tap" /\ KeysOf(m) # {}
    [] sw = "allow_uncompressed_keys" -> FALSE
    [] sw = "allow_compressed_keys" -> FALSE

(***************************************************************************)
(* Context rules (independent of the library's parameter tables):          *)
(*  - pre-segwit scripts have no MINIMALIF, so or_i and d: are refused     *)
(*  - CHECKMULTISIG only before tapscript, CHECKSIGADD only in it          *)
(*  - a complete script is of type B                                       *)
(***************************************************************************)
CtxOff(ctx) ==
  {"allow_non_b"}
  \cup (IF ctx \in {"legacy", "bare"} THEN {"allow_or_i", "allow_dup_if", "allow_multi_a"} ELSE {})
  \cup (IF ctx = "segwitv0" THEN {"allow_multi_a"} ELSE {})
  \cup (IF ctx = "tap" THEN {"allow_multi"} ELSE {})
SaneOff(ctx) == CtxOff(ctx) \cup {"allow_duplicate_keys", "allow_malleability", "allow_mixed_time_locks", "allow_sigless_branch"}

\* rules a context enforces whatever the parameters say: the multisig flavour, and the consensus
\* limits on the size of the script (a P2SH redeem script is pushed as one element of at most 520
\* bytes; any other script is at most 10000 bytes; tapscript has no such limit)
HardForbidden(ctx) == IF ctx = "tap" THEN {"multi", "sortedmulti"} ELSE {"multi_a", "sortedmulti_a"}
HasHardForbidden(m, ctx) == \E f \in HardForbidden(ctx) : HasFrag(m, f)
MaxScriptBytes(ctx) == IF ctx = "legacy" THEN 520 ELSE IF ctx = "tap" THEN 4000000 ELSE 10000
WithinConsensusSize(m, ctx) == ByteLen(Encode(m, ctx)) <= MaxScriptBytes(ctx)

\* a bare output (the script is the scriptPubKey itself) is relayed only as P2PK, P2PKH or a
\* CHECKMULTISIG of at most three keys: the only top-level expressions the bare context admits
BareStandard(m) ==
  \/ m.f = "c" /\ m.xs[1].f \in {"pk_k", "pk_h"}
  \/ m.f \in {"multi", "sortedmulti"} /\ Len(m.ks) <= 3

\* standardness limits of the output types (what a node relays): a P2SH redeem script is one push of
\* at most 520 bytes and its scriptSig holds at most 1650 bytes; a P2WSH witness script has at most
\* 3600 bytes and is run on at most 100 witness items
MaxStdScriptBytes(ctx) == IF ctx = "legacy" THEN 520 ELSE IF ctx = "segwitv0" THEN 3600 ELSE IF ctx = "bare" THEN 10000 ELSE 4000000
MaxStdScriptSigBytes == 1650
MaxStdWitnessItems == 100

ObeysContext(m, t, ctx) == \A sw \in CtxOff(ctx) : ~Defect(sw, m, t, ctx)
ObeysSane(m, t, ctx)    == \A sw \in SaneOff(ctx) : ~Defect(sw, m, t, ctx)
=============================================================================
