----------------------------- MODULE Trace_Policy -----------------------------
(***************************************************************************)
(* C18: policy transformations against truth tables (PolicyAtoms.tla) and  *)
(* the normalisation algorithm model (Normalize.tla).                      *)
(***************************************************************************)
EXTENDS Normalize, Json, IOUtils

ASSUME TLCSet(1, ndJsonDeserialize(IOEnv.TRACE))
Rec == TLCGet(1)
NB == 64

VARIABLES b, i
Init == b = 0 /\ i = 0
Next == \/ b = 0 /\ b' \in 1..NB /\ i' = 0
        \/ b > 0 /\ i = 0 /\ b' = b /\ i' \in {j \in 1..Len(Rec) : j % NB = b - 1}

Report(prop, clause, ev, detail) == PrintT("VERDICT " \o ToJson(<<prop, clause, ev.id, 0, detail>>))

Panicked(x) == x.st = "panic"

JudgeSem(ev) ==
  LET P == ev.pol IN
  /\ (ev.built \/ Report("INFO", "not_constructible", ev, ev.why))
  /\ (~ev.built \/
      /\ \A nm \in {"normalized", "sorted"} :
           /\ (~Panicked(ev[nm]) \/ Report("C11", "policy_panic", ev, nm))
           /\ (Panicked(ev[nm]) \/ SameTable(P, ev[nm].pol) \/ Report("C18", nm \o "_changes_truth_table", ev, ev[nm].pol))
      \* L2: the exact output of the algorithm model (Normalize.tla, proved table-preserving by MC_Normalize)
      /\ (Panicked(ev.normalized) \/ ev.normalized.pol = Norm(P)
          \/ Report("INFO", "drift_l2_normalize", ev, <<ev.normalized.pol, Norm(P)>>))
      /\ (ev.min_keys = MinKeysAlg(P) \/ Report("INFO", "drift_l2_minimum_n_keys", ev, <<ev.min_keys, MinKeysAlg(P)>>))
      /\ \A q \in 1..Len(ev.at_age) :
           Panicked(ev.at_age[q]) \/ ev.at_age[q].pol = AtAgeAlg(P, ev.at_age[q].v)
           \/ Report("INFO", "drift_l2_at_age", ev, <<ev.at_age[q].v, AtAgeAlg(P, ev.at_age[q].v)>>)
      /\ \A q \in 1..Len(ev.at_lock) :
           Panicked(ev.at_lock[q]) \/ ev.at_lock[q].pol = AtLockTimeAlg(P, ev.at_lock[q].v)
           \/ Report("INFO", "drift_l2_at_lock_time", ev, <<ev.at_lock[q].v, AtLockTimeAlg(P, ev.at_lock[q].v)>>)
      /\ (ev.n_keys = NKeys(P) \/ Report("C18", "n_keys", ev, <<ev.n_keys, NKeys(P)>>))
      /\ (IF SatisfiableA(P)
          THEN ev.min_keys = MinKeys(P) \/ Report("C18", "minimum_n_keys", ev, <<ev.min_keys, MinKeys(P)>>)
          ELSE ev.min_keys = -1 \/ Report("C18", "minimum_n_keys_of_unsatisfiable", ev, ev.min_keys))
      /\ \A q \in 1..Len(ev.at_age) :
           LET r == ev.at_age[q] IN
           /\ (~Panicked(r) \/ Report("C11", "policy_panic", ev, "at_age"))
           /\ (Panicked(r) \/
               (\A T \in SUBSET (Atoms(P) \cup Atoms(r.pol)) :
                  AgeOK(T, P, r.v) => (EvalA(r.pol, T) = EvalA(P, T)))
               \/ Report("C18", "at_age_wrong", ev, <<r.v, r.pol>>))
           /\ (Panicked(r) \/ (\A a \in Atoms(r.pol) : a[1] = "older" => RelImplied(a[2], r.v))
               \/ Report("C18", "at_age_keeps_unsatisfied_lock", ev, <<r.v, r.pol>>))
      /\ \A q \in 1..Len(ev.at_lock) :
           LET r == ev.at_lock[q] IN
           /\ (~Panicked(r) \/ Report("C11", "policy_panic", ev, "at_lock_time"))
           /\ (Panicked(r) \/
               (\A T \in SUBSET (Atoms(P) \cup Atoms(r.pol)) :
                  TimeOK(T, P, r.v) => (EvalA(r.pol, T) = EvalA(P, T)))
               \/ Report("C18", "at_lock_time_wrong", ev, <<r.v, r.pol>>))
           /\ (Panicked(r) \/ (\A a \in Atoms(r.pol) : a[1] = "after" => AbsImplied(a[2], r.v))
               \/ Report("C18", "at_lock_time_keeps_unsatisfied_lock", ev, <<r.v, r.pol>>)))

JudgeConc(ev) ==
  LET C == ev.pol IN
  /\ (ev.built \/ Report("INFO", "not_constructible", ev, ev.why))
  /\ (~ev.built \/
      /\ (ev.lift.st # "panic" \/ Report("C11", "policy_panic", ev, "Concrete::lift"))
      /\ (ev.lift.st # "ok" \/ SameTable(C, ev.lift.pol) \/ Report("C18", "lift_changes_truth_table", ev, ev.lift.pol))
      /\ (ev.lift.st # "err" \/ Report("INFO", "lift_err", ev, ev.lift.why))
      /\ (ev.timelocks_st # "panic" \/ Report("C11", "policy_panic", ev, "check_timelocks"))
      \* fires => some branch choice has both units (static reading);
      \* silent => no minimal satisfying assignment has both units (strict reading)
      /\ (ev.timelocks_st # "mixed" \/ MixedStatic(C) \/ Report("C18", "check_timelocks_fires_without_mixed_path", ev, ""))
      /\ (ev.timelocks_st # "clean" \/ ~MixedPolicy(C) \/ Report("C18", "check_timelocks_misses_mixed_path", ev, ""))
      /\ (ev.timelocks_st = "panic" \/ (ev.timelocks_st = "mixed") = MixedPolicy(C) \/ Report("INFO", "check_timelocks_static_vs_strict", ev, ev.timelocks_st))
      \* is_safe_nonmalleable is not among the transformations C18 lists: information only
      /\ (ev.safe_st = "panic" \/ ~SatisfiableA(C) \/ ev.safe = SafeA(C)
          \/ Report("INFO", "is_safe_differs", ev, <<ev.safe, SafeA(C)>>)))

JudgeEnt(ev) ==
  \A q \in 1..Len(ev.bs) :
    LET r == ev.res[q] IN
    /\ (r # "panic" \/ Report("C11", "policy_panic", ev, <<"entails", q>>))
    /\ (r = "panic" \/ r = "none" \/ (r = "true") = Entails(ev.pol, ev.bs[q])
        \/ Report("C18", "entails_wrong", ev, [b |-> ev.bs[q], lib |-> r]))
    /\ (r # "none" \/ Report("C18", "entails_none_below_limit", ev, q))
    \* L2: the case-split algorithm (Normalize.tla, proved equal to truth-table implication by MC_Normalize)
    /\ (r \in {"panic", "none"} \/ (r = "true") = EntailsAlg(ev.pol, ev.bs[q])
        \/ Report("INFO", "drift_l2_entails", ev, q))

JudgeEvent(ev) ==
  CASE ev.kind = "sem" -> JudgeSem(ev)
    [] ev.kind = "conc" -> JudgeConc(ev)
    [] ev.kind = "entails" -> JudgeEnt(ev)

Inv == i > 0 => JudgeEvent(Rec[i])
Post == PrintT("TRACE_DONE " \o ToJson(<<Len(Rec), TLCGet("stats").distinct>>))
=============================================================================
