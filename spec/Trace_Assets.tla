----------------------------- MODULE Trace_Assets -----------------------------
(***************************************************************************)
(* C17: "a plan exists exactly when the corresponding satisfier would      *)
(* succeed", at the level of the asset lookup.  An Assets key source       *)
(* (fingerprint, path) can sign for a descriptor key exactly when the      *)
(* fingerprints agree and the key's full derivation path is the asset path *)
(* or extends it by exactly one step (the documented rule of               *)
(* plan::Assets).  Per case the harness asks for plans of wpkh(K), tr(K),  *)
(* and wsh(multi(2,K,K')) with K' always signable.                         *)
(***************************************************************************)
EXTENDS Integers, Sequences, FiniteSets, TLC, Json, IOUtils, SequencesExt

ASSUME TLCSet(1, ndJsonDeserialize(IOEnv.TRACE))
Rec == TLCGet(1)
NB == 64

VARIABLES b, i
Init == b = 0 /\ i = 0
Next == \/ b = 0 /\ b' \in 1..NB /\ i' = 0
        \/ b > 0 /\ i = 0 /\ b' = b /\ i' \in {j \in 1..Len(Rec) : j % NB = b - 1}

Report(prop, clause, ev, detail) == PrintT("VERDICT " \o ToJson(<<prop, clause, ev.id, 0, detail>>))

CanSign(ev) ==
  /\ ev.same_fp
  /\ \/ ev.kpath = ev.apath
     \/ Len(ev.kpath) = Len(ev.apath) + 1 /\ SubSeq(ev.kpath, 1, Len(ev.apath)) = ev.apath

JudgeEvent(ev) ==
  /\ (~ev.panic \/ Report("C11", "planner_panic", ev, ev.msg))
  /\ (ev.panic \/ ~ev.built \/
      \A q \in 1..Len(ev.plans) :
        LET p == ev.plans[q] IN
        p.planned = CanSign(ev)
        \/ Report("C17", IF p.planned THEN "plan_for_key_the_assets_cannot_sign" ELSE "no_plan_although_assets_can_sign", ev, p.desc))

Inv == i > 0 => JudgeEvent(Rec[i])
Post == PrintT("TRACE_DONE " \o ToJson(<<Len(Rec), TLCGet("stats").distinct>>))
=============================================================================
