------------------------------ MODULE PlanSize ------------------------------
(***************************************************************************)
(* L2: the sizes a spending plan announces, as the implementation adds     *)
(* them up (src/plan.rs Plan::witness_size / scriptsig_size /              *)
(* satisfaction_weight, src/util.rs ItemSize for Placeholder).  A plan is  *)
(* a template of placeholders, one per stack element, each with a fixed    *)
(* size: 73 for an ECDSA signature, 64 + 1 for a Schnorr signature under   *)
(* the default sighash type (what the harness' signers produce), the      *)
(* serialised key + 1, 33 for a preimage or a hash dissatisfaction, 2 for  *)
(* the number one, 1 for the empty element; a taproot script-path plan     *)
(* also holds the leaf script and the control block, a wsh plan does NOT   *)
(* hold the witness script (the open finding KF-C09-plan-witness-size-wsh  *)
(* is exactly this line of the model).  The "witness size" of a template   *)
(* is the sum of the item sizes plus the varint of the item count, and is  *)
(* also what a pre-segwit plan reports as its scriptSig payload.           *)
(***************************************************************************)
EXTENDS Script, Sequences, Integers

PVarint(n) == IF n < 253 THEN 1 ELSE IF n < 65536 THEN 3 ELSE 5
PPushOp(n) == IF n < 76 THEN 1 ELSE IF n < 256 THEN 2 ELSE IF n < 65536 THEN 3 ELSE 5

\* size of the placeholder that produces stack element e
PItem(e, tap) ==
  CASE e.t = "sig" -> IF tap THEN 64 + 1 ELSE 73
    [] e.t = "key" -> SizeOf(e) + 1
    [] e.t \in {"pre", "z32", "j32"} -> 33
    [] e.t = "num" -> 2
    [] e.t = "e0" -> 1
    [] OTHER -> SizeOf(e) + 1
RECURSIVE PItems(_, _, _)
PItems(st, q, tap) == IF q > Len(st) THEN 0 ELSE PItem(st[q], tap) + PItems(st, q + 1, tap)

\* witness_size(template): st = the stack the plan will produce (without the scripts the output
\* type appends), scriptLen = bytes of the miniscript's script, depth = Merkle depth of the leaf
TemplateSize(st, wrap, scriptLen, depth) ==
  IF wrap \in {"tr", "tr33"}
  THEN LET cb == 33 + 32 * depth IN
       PItems(st, 1, TRUE) + (scriptLen + PVarint(scriptLen)) + (cb + PVarint(cb)) + PVarint(Len(st) + 2)
  ELSE PItems(st, 1, FALSE) + PVarint(Len(st))

PlanWitnessSize(st, wrap, scriptLen, depth) ==
  IF wrap \in {"wsh", "shwsh", "tr", "tr33"} THEN TemplateSize(st, wrap, scriptLen, depth) ELSE 0
PlanScriptSigSize(st, wrap, scriptLen) ==
  CASE wrap = "sh" -> TemplateSize(st, wrap, scriptLen, 0) + PPushOp(scriptLen) + scriptLen
    [] wrap = "bare" -> TemplateSize(st, wrap, scriptLen, 0)
    [] wrap = "shwsh" -> 1 + 1 + 1 + 1 + 32
    [] OTHER -> 1
PlanWeight(st, wrap, scriptLen, depth) ==
  PlanWitnessSize(st, wrap, scriptLen, depth) + 4 * PlanScriptSigSize(st, wrap, scriptLen)
=============================================================================
