------------------------------ MODULE MC_SatSet ------------------------------
(***************************************************************************)
(* Lemma binding the two halves of L1: the Miniscript satisfaction table   *)
(* (MsSpec!SD) against the Script machine (Script!Run).                    *)
(*   Sound:    every member of SatSet/DsatSet behaves as claimed in the VM *)
(*   Complete: (small domain) if brute force over the caller's alphabet    *)
(*             finds an accepted stack, SatSet is non-empty                *)
(***************************************************************************)
EXTENDS AstGen

CONSTANTS BruteLen, BruteNodes

VARIABLES b, i     \* bucket and case index (0 = not yet chosen)

\* TLC does not cache this constant (it depends on overridden constants), so it is
\* computed once at start-up and parked in a TLC register
ASSUME TLCSet(1, SetToSeq({x \in WTUpTo(MaxNodes) : KeyCanonical(x.a)}))
Cases == TLCGet(1)
NB == 64

\* two-level fan-out so that TLC's workers share the cases
Init == b = 0 /\ i = 0
Next == \/ b = 0 /\ b' \in 1..NB /\ i' = 0
        \/ b > 0 /\ i = 0 /\ b' = b /\ i' \in {j \in 1..Len(Cases) : j % NB = b - 1}
c == Cases[i]

Marker == Num(7)

\* run fragment m (type t) on input stack s; return the VM
RunFrag(m, t, s, env) ==
  LET code == IF t.b = "K" THEN Append(Encode(m, Ctx), Op("CHECKSIG")) ELSE Encode(m, Ctx)
      inp  == IF t.b = "W" THEN Append(s, Marker) ELSE s
  IN Run(code, inp, env)

\* classify the outcome of a fragment run: "sat", "dsat", "abort", "shape"
Outcome(t, vm) ==
  IF vm.err # "" THEN "abort"
  ELSE IF t.b = "V" THEN (IF Len(vm.st) = 0 THEN "sat" ELSE "shape")
  ELSE IF t.b = "W" THEN
    IF Len(vm.st) # 2 THEN "shape"
    ELSE IF vm.st[1] = Marker THEN (IF Truthy(vm.st[2]) THEN "sat" ELSE "dsat")
    ELSE IF vm.st[2] = Marker THEN (IF Truthy(vm.st[1]) THEN "sat" ELSE "dsat")
    ELSE "shape"
  ELSE IF Len(vm.st) # 1 THEN "shape"
  ELSE IF Truthy(vm.st[1]) THEN "sat" ELSE "dsat"

Sound ==
  \A w \in WorldsOf(c.a) :
    LET r == SD(c.a, w, Ctx) IN
    /\ \A s \in r.s : Outcome(c.t, RunFrag(c.a, c.t, s, w.env)) = "sat"
    /\ \A d \in r.d : Outcome(c.t, RunFrag(c.a, c.t, d, w.env)) = "dsat"

\* brute force alphabet: what the caller of world w can put on the stack
Alphabet(m, w) ==
  {E0, E1, Z32, J32(1)}
  \cup {Sig(k, "good") : k \in w.sigs}
  \cup {Key(k, KeyForm(Ctx)) : k \in KeysOf(m)}
  \cup {Pre(h[2], h[1]) : h \in w.pre}

RECURSIVE Stacks(_, _)
Stacks(A, n) == IF n = 0 THEN {<<>>} ELSE Stacks(A, n - 1) \cup {Append(s, a) : s \in {q \in Stacks(A, n - 1) : Len(q) = n - 1}, a \in A}

Complete ==
  NodeCount(c.a) <= BruteNodes =>
  \A w \in WorldsOf(c.a) :
    LET r == SD(c.a, w, Ctx)
        outs == {Outcome(c.t, RunFrag(c.a, c.t, s, w.env)) : s \in Stacks(Alphabet(c.a, w), BruteLen)}
    IN /\ ("sat" \in outs => r.s # {})
       /\ ("dsat" \in outs => r.d # {})

\* type soundness at the L1 level (the spec's own tables vs. its own VM): a sanity lemma
Inv == i > 0 => (Sound /\ Complete)
NCases == Len(Cases)
=============================================================================
