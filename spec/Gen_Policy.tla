------------------------------ MODULE Gen_Policy ------------------------------
(***************************************************************************)
(* C18 case generator: abstract (semantic) and concrete policies up to a   *)
(* size bound, with trivial / unsatisfiable children, nested thresholds,   *)
(* repeated atoms, n-ary and/or of arity 0..3; entailment rows.            *)
(***************************************************************************)
EXTENDS PolicyAtoms, Json, IOUtils, SequencesExt

CONSTANTS Deep   \* TRUE: also two-level nestings with 3-leaf inner nodes

L(p, n) == [p |-> p, n |-> n, xs |-> <<>>]
N(p, n, xs) == [p |-> p, n |-> n, xs |-> xs]

Leaves == {L("key", 1), L("key", 2), L("sha256", 1), L("after", 100), L("after", 500000100),
           L("older", 10), L("older", 4194314), L("trivial", 0), L("unsat", 0)}

T2 == {N("thresh", k, <<a, c>>) : k \in 1..2, a \in Leaves, c \in Leaves}
T3 == {N("thresh", k, <<a, c, d>>) : k \in 1..3, a \in Leaves, c \in Leaves, d \in Leaves}
T1 == {N("thresh", 1, <<a>>) : a \in Leaves}
Nest2 == {N("thresh", k, <<t, c>>) : k \in 1..2, t \in T2, c \in Leaves}
         \cup {N("thresh", k, <<c, t>>) : k \in 1..2, t \in T2, c \in Leaves}
Nest3 == IF Deep THEN {N("thresh", k, <<t, c, d>>) : k \in 1..3, t \in T2, c \in Leaves, d \in {L("key", 1), L("older", 10), L("unsat", 0)}}
         ELSE {}
Sem == Leaves \cup T1 \cup T2 \cup T3 \cup Nest2 \cup Nest3

CAnd(xs) == N("and", 0, xs)
COr(xs)  == N("or", 0, xs)
CL == Leaves
Conc ==
  CL \cup {CAnd(<<>>), COr(<<>>)}
  \cup {CAnd(<<a>>) : a \in CL} \cup {COr(<<a>>) : a \in CL}
  \cup {CAnd(<<a, c>>) : a \in CL, c \in CL} \cup {COr(<<a, c>>) : a \in CL, c \in CL}
  \cup {CAnd(<<a, c, d>>) : a \in CL, c \in CL, d \in {L("key", 1), L("after", 100), L("unsat", 0)}}
  \cup {COr(<<a, c, d>>) : a \in CL, c \in CL, d \in {L("key", 1), L("after", 100), L("trivial", 0)}}
  \cup {N("thresh", k, <<a, c>>) : k \in 1..2, a \in CL, c \in CL}
  \cup {CAnd(<<COr(<<a, c>>), d>>) : a \in CL, c \in CL, d \in CL}
  \cup {COr(<<CAnd(<<a, c>>), d>>) : a \in CL, c \in CL, d \in CL}
  \cup {N("thresh", k, <<CAnd(<<a, c>>), d, L("key", 2)>>) : k \in 1..3, a \in CL, c \in {L("after", 500000100), L("older", 4194314), L("key", 1)}, d \in CL}

EntSet == SetToSeq(Leaves \cup T1 \cup T2)

SemSeq == SetToSeq(Sem)
ConcSeq == SetToSeq(Conc)
Cases ==
  [q \in 1..Len(SemSeq) |-> [id |-> q, kind |-> "sem", pol |-> SemSeq[q]]]
  \o [q \in 1..Len(ConcSeq) |-> [id |-> Len(SemSeq) + q, kind |-> "conc", pol |-> ConcSeq[q]]]
  \o [q \in 1..Len(EntSet) |-> [id |-> Len(SemSeq) + Len(ConcSeq) + q, kind |-> "entails", pol |-> EntSet[q], bs |-> EntSet]]

ASSUME ndJsonSerialize(IOEnv.OUT, Cases)
ASSUME PrintT("GEN " \o ToJson(<<"cases", Len(Cases), Len(SemSeq), Len(ConcSeq), Len(EntSet)>>))
=============================================================================
