------------------------------- MODULE Gen_Crash -------------------------------
(***************************************************************************)
(* C11 case generator: every string up to StrLen over the expression       *)
(* alphabet; every opcode sequence up to TokLen over the script alphabet;  *)
(* parametric deep / wide / long families; PSBT field mutations; Assets.   *)
(***************************************************************************)
EXTENDS Integers, Sequences, FiniteSets, TLC, Json, IOUtils, SequencesExt

CONSTANTS StrLen, TokLen

Chars == <<"a", "1", "(", ")", "{", "}", ",", ":", "@">>
Toks == <<"0", "1", "2", "17", "K", "X", "H20", "IF", "NOTIF", "ELSE", "ENDIF", "VERIFY", "TOALT", "FROMALT", "IFDUP", "DUP",
          "SWAP", "SIZE", "EQUAL", "EQUALVERIFY", "BOOLAND", "BOOLOR", "ADD", "NUMEQUAL", "NUMEQUALVERIFY", "0NOTEQUAL",
          "CHECKSIG", "CHECKSIGVERIFY", "CHECKSIGADD", "CHECKMULTISIG", "CHECKMULTISIGVERIFY", "CLTV", "CSV", "SHA256",
          "HASH160", "RETURN", "PUSHDATA1_TRUNC", "BAD", "NEG", "NONMIN", "PUSH5">>

RECURSIVE Seqs(_, _)
Seqs(A, n) == IF n = 0 THEN {<<>>}
              ELSE LET S == Seqs(A, n - 1) IN S \cup {Append(s, A[q]) : s \in {x \in S : Len(x) = n - 1}, q \in 1..Len(A)}

Shapes == <<"nest_paren", "nest_brace", "nest_wrappers", "nest_andv", "nest_ori", "wide_thresh", "wide_multi", "long_name", "long_number", "unclosed">>
Sizes == <<1, 20, 21, 128, 129, 400, 401, 402, 403, 404, 1000, 20000>>

StrCases == LET S == SetToSeq(Seqs(Chars, StrLen)) IN [q \in 1..Len(S) |-> [kind |-> "str", chars |-> S[q]]]
TokCases == LET S == SetToSeq(Seqs(Toks, TokLen)) IN [q \in 1..Len(S) |-> [kind |-> "tokens", toks |-> S[q]]]
DeepCases == [q \in 1..(Len(Shapes) * Len(Sizes)) |-> [kind |-> "deep", shape |-> Shapes[((q - 1) \div Len(Sizes)) + 1], n |-> Sizes[((q - 1) % Len(Sizes)) + 1]]]
Other == <<[kind |-> "psbt_mut"], [kind |-> "assets"]>>

All == StrCases \o TokCases \o DeepCases \o Other
Cases == [q \in 1..Len(All) |-> All[q] @@ [id |-> q]]
ASSUME ndJsonSerialize(IOEnv.OUT, Cases)
ASSUME PrintT("GEN " \o ToJson(<<"cases", Len(Cases), Len(StrCases), Len(TokCases), Len(DeepCases)>>))
=============================================================================
