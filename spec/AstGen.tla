------------------------------- MODULE AstGen -------------------------------
(***************************************************************************)
(* Enumeration of the finite input spaces the properties quantify over:    *)
(* all well-typed miniscripts up to a node bound (type-first, memoised),   *)
(* all ASTs (typed or not) up to a smaller bound, and the asset worlds     *)
(* relevant to an AST.                                                     *)
(***************************************************************************)
EXTENDS Worlds

CONSTANTS
  Ctx,        \* "bare" | "legacy" | "segwitv0" | "tap"
  KeyIds,     \* e.g. {1, 2, 3}
  HashLeaves, \* set of <<kind, id>>
  Afters,     \* set of absolute lock values
  Olders,     \* set of relative lock values
  MultiKs,    \* set of <<k, keyseq>> for multi / multi_a leaves
  MaxNodes,   \* node bound for WT
  MaxThreshN  \* max number of thresh children

T(a, t) == [a |-> a, t |-> t]

MultiName == IF Ctx = "tap" THEN "multi_a" ELSE "multi"

LeafAsts ==
  {Leaf("0", 0), Leaf("1", 0)}
  \cup {Leaf("pk_k", k) : k \in KeyIds} \cup {Leaf("pk_h", k) : k \in KeyIds}
  \cup {Leaf("older", n) : n \in Olders} \cup {Leaf("after", n) : n \in Afters}
  \cup {Leaf(h[1], h[2]) : h \in HashLeaves}
  \cup {Ast(MultiName, mk[1], mk[2], <<>>) : mk \in MultiKs}
  \cup {Ast("sorted" \o MultiName, mk[1], mk[2], <<>>) : mk \in MultiKs}

\* pk(K) = c:pk_k(K), pkh(K) = c:pk_h(K) count as one node (they are the leaves users write)
SugarLeafAsts ==
  {Un("c", Leaf("pk_k", k)) : k \in KeyIds} \cup {Un("c", Leaf("pk_h", k)) : k \in KeyIds}

OkOnly(S) == {x \in S : x.t.ok}

\* sequences of child sizes (each >= 1) of length c summing to total
RECURSIVE Splits(_, _)
Splits(total, c) ==
  IF c = 1 THEN (IF total >= 1 THEN {<<total>>} ELSE {})
  ELSE UNION {{<<i>> \o r : r \in Splits(total - i, c - 1)} : i \in 1..(total - c + 1)}

\* all child tuples for a thresh with the given sizes: first child B d u, others W d u
RECURSIVE ThreshKids(_, _, _)
ThreshKids(sizes, i, pools) ==
  IF i > Len(sizes) THEN {<<>>}
  ELSE LET want == IF i = 1 THEN "B" ELSE "W"
           pool == {x \in pools[sizes[i]] : x.t.b = want /\ Has(x.t, {"d", "u"})}
       IN {<<x>> \o r : x \in pool, r \in ThreshKids(sizes, i + 1, pools)}

WT[n \in 1..MaxNodes] ==
  IF n = 1
  THEN OkOnly({T(a, TypeOf(a, Ctx)) : a \in LeafAsts \cup SugarLeafAsts})
  ELSE
    LET un == OkOnly({T(Un(w, x.a), SpecUnType(w, x.t, Ctx)) : w \in Wrappers, x \in WT[n - 1]})
        bin == UNION {OkOnly({T(Bin(f, x.a, y.a), SpecBinType(f, x.t, y.t, Ctx)) :
                               f \in BinFrags, x \in WT[i], y \in WT[n - 1 - i]}) : i \in 1..(n - 2)}
        tern == UNION {OkOnly({T(Tern("andor", x.a, y.a, z.a), SpecAndOrType(x.t, y.t, z.t, Ctx)) :
                                 x \in {q \in WT[s[1]] : q.t.b = "B" /\ Has(q.t, {"d", "u"})},
                                 y \in WT[s[2]], z \in WT[s[3]]}) : s \in Splits(n - 1, 3)}
        thr == UNION {UNION {OkOnly({T(Thresh(k, [i \in 1..c |-> kids[i].a]),
                                       SpecThreshType(k, [i \in 1..c |-> kids[i].t])) :
                                      k \in 1..c, kids \in ThreshKids(s, 1, [j \in 1..(n - 1) |-> WT[j]])})
                             : s \in Splits(n - 1, c)} : c \in 1..MaxThreshN}
    IN un \cup bin \cup tern \cup thr

WTUpTo(n) == UNION {WT[i] : i \in 1..n}

WorldsOf(m) == WorldsOfCtx(m, Ctx)

(***************************************************************************)
(* Families beyond the exhaustive node bound (shared by the generators)    *)
(***************************************************************************)
CONSTANTS NCKeep,      \* 0: no nested-choice / threshold-mix families; else keep every NCKeep-th nested choice
          CompStride,  \* 0: no composites; else the pools are thinned to every CompStride-th element
          CompKeep,    \* of the typed composites keep every CompKeep-th
          CompSeed     \* offset of the kept residue classes (from VERIF_SEED)


(***************************************************************************)
(* Larger miniscripts than the exhaustive node bound reaches: every binary *)
(* combinator over the (<= 3 node) x (<= 2 node) pools in both orders,     *)
(* andor over the <= 2 node pool, thresh over three <= 2 node children;    *)
(* type-checked by SpecType, then thinned deterministically by stride.     *)
(***************************************************************************)
\* the pools are thinned BEFORE combination (cost is quadratic / cubic in pool size):
\* every CompStride-th element, residue class chosen by the seed
\* (Q is bound through a singleton comprehension: a LET definition would be re-evaluated, i.e. the
\* whole set re-enumerated, once per selected element)
Thin(S, stride, off) ==
  CHOOSE R \in {{Q[q] : q \in {r \in 1..Len(Q) : r % stride = off % stride}} : Q \in {SetToSeq(S)}} : TRUE
P3 == IF CompStride = 0 THEN {} ELSE Thin(WTUpTo(IF MaxNodes < 3 THEN MaxNodes ELSE 3), CompStride, CompSeed)
P2 == IF CompStride = 0 THEN {} ELSE Thin(WTUpTo(2), (CompStride + 1) \div 2, CompSeed)
P2all == IF CompStride = 0 THEN {} ELSE WTUpTo(2)
CompTyped ==
  IF CompStride = 0 THEN {}
  ELSE OkOnly({T(Bin(f, x.a, y.a), SpecBinType(f, x.t, y.t, Ctx)) : f \in BinFrags, x \in P3, y \in P2})
       \cup OkOnly({T(Bin(f, x.a, y.a), SpecBinType(f, x.t, y.t, Ctx)) : f \in BinFrags, x \in P2, y \in P3})
       \cup UNION {OkOnly({T(Tern("andor", x.a, y.a, z.a), SpecAndOrType(x.t, y.t, z.t, Ctx)) : y \in P2, z \in P2})
                   : x \in {q \in P2all : q.t.b = "B" /\ Has(q.t, {"d", "u"})}}
       \cup UNION {OkOnly({T(Thresh(k, <<x.a, y.a, z.a>>), SpecThreshType(k, <<x.t, y.t, z.t>>)) :
                             k \in 1..3, y \in {q \in P2all : q.t.b = "W" /\ Has(q.t, {"d", "u"})},
                             z \in {q \in P2 : q.t.b = "W" /\ Has(q.t, {"d", "u"})}})
                   : x \in {q \in P2 : q.t.b = "B" /\ Has(q.t, {"d", "u"})}}
CompB == {x \in CompTyped : x.t.b = "B" /\ NodeCount(x.a) > MaxNodes /\ KeyCanonical(x.a)}
CompKept == IF CompStride = 0 THEN {} ELSE {x.a : x \in Thin(CompB, CompKeep, CompSeed)}
\* a second level: composites under or_d / or_b / and_b / or_i with a small sibling (dissatisfied
\* and satisfied positions of the composite both occur)
Sib == {q \in P2 : KeyCanonical(q.a)}
Comp2Kept == IF CompStride = 0 THEN {}
             ELSE LET lvl1 == Thin(CompB, CompKeep * 8, CompSeed + 1)
                      lvl2 == {z \in OkOnly({T(Bin(f, x.a, s.a), SpecBinType(f, x.t, s.t, Ctx)) : f \in {"or_d", "or_b", "and_b", "or_i"}, x \in lvl1, s \in Sib})
                                 : z.t.b = "B" /\ KeyCanonical(z.a)}
                  IN {y.a : y \in Thin(lvl2, 6, CompSeed)}


(***************************************************************************)
(* "Signed prefix" family: and_v(v:pk(K1), X) for every B fragment X of up *)
(* to 3 nodes (keys of X shifted by one).  It turns fragments with a       *)
(* signature-less branch into sane scripts, which is where the             *)
(* non-malleable satisfier has to make its interesting choices.            *)
(***************************************************************************)
RECURSIVE ShiftKeys(_)
ShiftKeys(m) ==
  IF m.f \in {"pk_k", "pk_h"} THEN [m EXCEPT !.n = m.n + 1]
  ELSE IF m.f \in {"multi", "multi_a", "sortedmulti", "sortedmulti_a"} THEN [m EXCEPT !.ks = [q \in 1..Len(m.ks) |-> m.ks[q] + 1]]
  ELSE [m EXCEPT !.xs = [q \in 1..Len(m.xs) |-> ShiftKeys(m.xs[q])]]
PrefixedKept ==
  IF CompStride = 0 THEN {}
  ELSE {y.a : y \in OkOnly({T(Bin("and_v", Un("v", Un("c", Leaf("pk_k", 1))), ShiftKeys(x.a)),
                                 TypeOf(Bin("and_v", Un("v", Un("c", Leaf("pk_k", 1))), ShiftKeys(x.a)), Ctx))
                               : x \in {q \in WTUpTo(IF MaxNodes < 3 THEN MaxNodes ELSE 3) : q.t.b = "B" /\ KeyCanonical(q.a) /\ "s" \notin q.t.fl}})}

(***************************************************************************)
(* Wrapper closure: every single wrapper over the fragments of exactly     *)
(* MaxNodes nodes, thinned by WrapStride (0 = none).                       *)
(***************************************************************************)
WrappedTyped(stride, off) ==
  IF stride = 0 THEN {}
  ELSE OkOnly({T(Un(w, x.a), SpecUnType(w, x.t, Ctx)) : w \in Wrappers, x \in Thin(WT[MaxNodes], stride, off)})

(***************************************************************************)
(* Wrappers over small conjunctions: w:and_v(v:X, Y) with X up to 2 nodes  *)
(* and Y a leaf or a key check.  and_v takes its "unit" and "dissat"       *)
(* behaviour from Y alone, so this is where a wrapper rule that looks only *)
(* at the wrapper (d:, j:, n:, a:, s:) can go wrong.  Not thinned.         *)
(***************************************************************************)
ConjTyped ==
  OkOnly({T(Bin("and_v", Un("v", x.a), y), TypeOf(Bin("and_v", Un("v", x.a), y), Ctx))
          : x \in {q \in WTUpTo(IF MaxNodes < 2 THEN MaxNodes ELSE 2) : q.t.b = "B"},
            y \in {q.a : q \in {r \in WT[1] : r.t.b = "B"}} \cup {Un("c", Leaf("pk_k", 2))}})
WrappedConj(on) ==
  IF on = 0 THEN {}
  ELSE {z \in OkOnly({T(Un(w, c.a), SpecUnType(w, c.t, Ctx)) : w \in Wrappers, c \in ConjTyped}) : KeyCanonical(z.a)}

(***************************************************************************)
(* Time-lock mixing family (independent of the Afters / Olders universe):  *)
(* every way of combining two or three signed fragments that each carry    *)
(* one lock out of {height, time} x {absolute, relative}, under every      *)
(* conjunction / disjunction / threshold shape, in both orders.            *)
(***************************************************************************)
Locks4 == {Leaf("older", 10), Leaf("older", 4194314), Leaf("after", 100), Leaf("after", 500000100)}
LkB(k, l) == Bin("and_v", Un("v", Un("c", Leaf("pk_k", k))), l)                               \* B, signed, lock l
LkU(k, l) == Bin("or_i", Leaf("0", 0), Bin("and_v", Un("v", l), Un("c", Leaf("pk_k", k))))   \* B d u, signed, lock l
LockMixAsts ==
  UNION {{Bin("and_v", Un("v", LkB(1, a)), LkB(2, c)),
          Bin("and_b", LkB(1, a), Un("a", LkB(2, c))),
          Bin("and_b", LkU(1, a), Un("a", LkU(2, c))),
          Bin("or_i", LkB(1, a), LkB(2, c)),
          Bin("or_d", LkU(1, a), LkB(2, c)),
          Bin("or_b", LkU(1, a), Un("a", LkU(2, c))),
          Bin("or_c", LkU(1, a), Un("v", LkB(2, c))),
          Thresh(1, <<LkU(1, a), Un("a", LkU(2, c))>>),
          Thresh(2, <<LkU(1, a), Un("a", LkU(2, c))>>)} : a \in Locks4, c \in Locks4}
  \cup UNION {{Tern("andor", LkU(1, a), LkB(2, c), LkB(3, d)),
               Bin("and_v", Un("v", Bin("or_i", LkB(1, a), LkB(2, c))), LkB(3, d)),
               Bin("and_v", Un("v", LkB(1, a)), Bin("or_i", LkB(2, c), LkB(3, d))),
               Thresh(2, <<LkU(1, a), Un("a", LkU(2, c)), Un("a", LkU(3, d))>>)} : a \in Locks4, c \in Locks4, d \in Locks4}
\* a conjunction that mixes (or not) two locks, placed UNDER every kind of disjunction
LkConj(a, c) == Bin("and_v", Un("v", LkB(1, a)), LkB(2, c))
LkConjU(a, c) == Bin("or_i", Leaf("0", 0), Bin("and_v", Un("v", Bin("and_v", Un("v", a), c)), Un("c", Leaf("pk_k", 1))))
LockUnderOr ==
  UNION {{Bin("or_i", LkConj(a, c), Un("c", Leaf("pk_k", 3))),
          Bin("or_i", Un("c", Leaf("pk_k", 3)), LkConj(a, c)),
          Bin("or_d", Un("c", Leaf("pk_k", 3)), LkConj(a, c)),
          Bin("or_c", Un("c", Leaf("pk_k", 3)), Un("v", LkConj(a, c))),
          Bin("or_b", LkConjU(a, c), Un("a", Un("c", Leaf("pk_k", 2)))),
          Tern("andor", Un("c", Leaf("pk_k", 3)), LkConj(a, c), Un("c", Leaf("pk_k", 4))),
          Tern("andor", Un("c", Leaf("pk_k", 3)), Un("c", Leaf("pk_k", 4)), LkConj(a, c)),
          Thresh(1, <<LkConjU(a, c), Un("a", Un("c", Leaf("pk_k", 2)))>>),
          Bin("and_v", Un("v", Un("c", Leaf("pk_k", 4))), Bin("or_i", LkConj(a, c), Un("c", Leaf("pk_k", 3))))} : a \in Locks4, c \in Locks4}
LockMix(on) == IF on = 0 THEN {} ELSE {x.a : x \in OkOnly({T(m, TypeOf(m, Ctx)) : m \in LockMixAsts \cup LockUnderOr})}

(***************************************************************************)
(* Nested choices: a choice inside a choice over a handful of atoms (keys, *)
(* a hash, both kinds of lock), every or-combinator at both levels, both   *)
(* nesting sides, every wrapper the typing needs; plus andor over atoms.   *)
(* This is where the satisfier's chooser (cost comparison, has_sig         *)
(* bookkeeping, non-malleable refusal) has real work to do.  Fragments     *)
(* with a signature-less path are made sane by the signed prefix.          *)
(***************************************************************************)
NCAtoms == {Un("c", Leaf("pk_k", 1)), Un("c", Leaf("pk_k", 2)), Un("c", Leaf("pk_k", 3)),
            Leaf("older", 10), Leaf("after", 100), Leaf("sha256", 1)}
NCSlots(S) == S \cup {Un(w, x) : w \in {"a", "s", "v"}, x \in S}
NCOrs == {"or_i", "or_d", "or_b", "or_c"}
NCOk(S) == {x \in S : TypeOf(x, Ctx).ok}
NoDupKeys(m) == LET ks == KeysPre(m) IN Cardinality(Range(ks)) = Len(ks)
\* (operators with a dummy parameter: TLC evaluates every zero-arity constant definition at
\* start-up, also in modules that never use it)
NCInner(dummy) == NCOk({Bin(g, p, q) : g \in NCOrs, p \in NCAtoms, q \in NCSlots(NCAtoms)})
NCOuterOf(I) == NCOk({Bin(f, x, q) : f \in NCOrs, x \in I, q \in NCSlots(NCAtoms)}
                     \cup {Bin(f, p, q) : f \in NCOrs, p \in NCAtoms, q \in NCSlots(I)}
                     \cup {Tern("andor", p, q, r) : p \in NCAtoms, q \in NCAtoms \cup I, r \in NCAtoms})
NCSigned(x) == IF "s" \in TypeOf(x, Ctx).fl THEN x
               ELSE Bin("and_v", Un("v", Un("c", Leaf("pk_k", 1))), ShiftKeys(x))
NestedChoice(keep, off) ==
  IF keep = 0 THEN {}
  ELSE LET B == {x \in NCOuterOf(NCInner(0)) : TypeOf(x, Ctx).b = "B" /\ NoDupKeys(x) /\ KeyCanonical(x)}
       IN {y \in {NCSigned(x) : x \in Thin(B, keep, off)} : TypeOf(y, Ctx).ok}

(***************************************************************************)
(* Threshold mix: thresh(k, B, W, W) for every k over members of different *)
(* nature - keys, a hash lock with a unique dissatisfaction (l:t:v:sha256),*)
(* a relative lock (l:n:older), a 1-of-2 multisig - under both W wrappers. *)
(***************************************************************************)
TMHash0(dummy) == Bin("or_i", Leaf("0", 0), Bin("and_v", Un("v", Leaf("sha256", 1)), Leaf("1", 0)))
TMLock0(dummy) == Bin("or_i", Leaf("0", 0), Un("n", Leaf("older", 10)))
TMB(dummy) == {Un("c", Leaf("pk_k", 1)), TMHash0(0), TMLock0(0), Ast(MultiName, 1, <<1, 2>>, <<>>)}
TMW(dummy) == {Un(w, Un("c", Leaf("pk_k", k))) : w \in {"a", "s"}, k \in {2, 3, 4}} \cup {Un("a", TMHash0(0)), Un("s", TMLock0(0)), Un("a", TMLock0(0))}
ThreshMix(on) ==
  IF on = 0 THEN {}
  ELSE {x \in NCOk({Thresh(k, <<b, w1, w2>>) : k \in 1..3, b \in TMB(0), w1 \in TMW(0), w2 \in TMW(0)}) : NoDupKeys(x) /\ KeyCanonical(x)}

(***************************************************************************)
(* Cost mix: every combinator over a key and a member whose cost differs   *)
(* between a witness and a scriptSig, or between its branches (a k-of-n    *)
(* multisig, a choice by OP_IF, d: / u: / l: wrappers, a hash): the static *)
(* size figures (C09) are combined by a separate rule for every            *)
(* combinator, and an error in one rule shows only when the two children   *)
(* have unequal figures.  V-typed results are closed with and_v(X, 1).     *)
(***************************************************************************)
CMKids(a) == {Un("c", Leaf("pk_k", a)),
              Ast(MultiName, 2, <<a, a + 1, a + 2>>, <<>>),
              Bin("or_i", Un("c", Leaf("pk_k", a)), Un("c", Leaf("pk_k", a + 1))),
              Bin("or_i", Leaf("0", 0), Un("c", Leaf("pk_k", a))),
              Un("d", Un("v", Leaf("older", 10))),
              Bin("and_v", Un("v", Leaf("sha256", 1)), Un("c", Leaf("pk_k", a)))}
CMSlots(S) == S \cup {Un(w, x) : w \in {"a", "s", "v", "j", "n"}, x \in S} \cup {Un("v", Un("c", x)) : x \in S}
CMClose(x) == LET t == TypeOf(x, Ctx) IN IF t.ok /\ t.b = "V" THEN Bin("and_v", x, Leaf("1", 0)) ELSE x
CostMix(on) ==
  IF on = 0 THEN {}
  ELSE LET K1 == Un("c", Leaf("pk_k", 1))
           K4 == Un("c", Leaf("pk_k", 4))
           raw == {Bin(f, p, q) : f \in {"and_v", "and_b", "or_b", "or_c", "or_d", "or_i"}, p \in CMSlots({K1}), q \in CMSlots(CMKids(2))}
                  \cup {Bin(f, p, q) : f \in {"and_v", "and_b", "or_b", "or_c", "or_d", "or_i"}, p \in CMSlots(CMKids(1)), q \in CMSlots({K4})}
                  \cup {Tern("andor", K1, q, r) : q \in CMKids(2), r \in {Un("c", Leaf("pk_k", 5)), Leaf("0", 0)}}
                  \cup {Tern("andor", K1, Un("c", Leaf("pk_k", 2)), r) : r \in CMKids(3)}
       IN {y \in {CMClose(x) : x \in NCOk(raw)} : TypeOf(y, Ctx).ok /\ TypeOf(y, Ctx).b = "B" /\ NoDupKeys(y)}

(***************************************************************************)
(* Hash kinds: the universe enumerates one or two hash functions; every    *)
(* enumerated fragment with a hash leaf is also produced with another of   *)
(* the four kinds (chosen by position), so that all of sha256 / hash256 /  *)
(* ripemd160 / hash160 occur in every nesting.                             *)
(***************************************************************************)
RECURSIVE SwapHash(_, _)
SwapHash(m, kind) ==
  IF m.f \in HashFrags THEN [m EXCEPT !.f = kind]
  ELSE IF Len(m.xs) = 0 THEN m
  ELSE [m EXCEPT !.xs = [q \in 1..Len(m.xs) |-> SwapHash(m.xs[q], kind)]]
RECURSIVE HasHash(_)
HasHash(m) == m.f \in HashFrags \/ \E q \in 1..Len(m.xs) : HasHash(m.xs[q])
OtherKinds == <<"ripemd160", "hash256", "hash160", "sha256">>
\* S: a set of ASTs; every member with a hash leaf is re-issued with the kind picked by its index
HashSwapped(S) ==
  CHOOSE R \in {{SwapHash(Q[q], OtherKinds[(q % 4) + 1]) : q \in {r \in 1..Len(Q) : HasHash(Q[r])}} : Q \in {SetToSeq(S)}} : TRUE

(***************************************************************************)
(* Numbers at the byte-length boundaries of script numbers, wide           *)
(* multisigs (more than 16 keys: the key count is no longer a one-byte     *)
(* opcode), and the multisig fragments of the OTHER contexts (to be        *)
(* refused).                                                               *)
(***************************************************************************)
AfterBounds == {1, 16, 17, 127, 128, 255, 256, 32767, 32768, 65535, 65536, 8388607, 8388608, 16777215, 16777216,
                499999999, 500000000, 500000001, 2147483000}
OlderBounds == {1, 16, 17, 127, 128, 255, 256, 32767, 32768, 65535, 4194305, 4194431, 4194432, 4259839}
NumBoundary(on) ==
  IF on = 0 THEN {}
  ELSE {Leaf("after", n) : n \in AfterBounds} \cup {Leaf("older", n) : n \in OlderBounds}
       \cup {Bin("and_v", Un("v", Un("c", Leaf("pk_k", 1))), Leaf("after", n)) : n \in AfterBounds}
       \cup {Bin("and_v", Un("v", Un("c", Leaf("pk_k", 1))), Leaf("older", n)) : n \in OlderBounds}
Keys1To(n) == [q \in 1..n |-> q]
WideMulti(on) ==
  IF on = 0 THEN {}
  \* (not for CHECKSIGADD multisigs: their satisfaction table has 2^n rows, minutes of TLC time for n = 17)
  ELSE IF Ctx = "tap" THEN {}
  ELSE {Ast(f, k, Keys1To(n), <<>>) : f \in {MultiName, "sorted" \o MultiName}, n \in {16, 17, 20}, k \in {1, 2, 16, 17, 20}}
CrossLeaves ==
  {Ast(f, mk[1], mk[2], <<>>) : f \in {"multi", "multi_a", "sortedmulti", "sortedmulti_a"}, mk \in MultiKs}

=============================================================================
