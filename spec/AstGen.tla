------------------------------- MODULE AstGen -------------------------------
(***************************************************************************)
(* Enumeration of the finite input spaces the properties quantify over:    *)
(* all well-typed miniscripts up to a node bound (type-first, memoised),   *)
(* all ASTs (typed or not) up to a smaller bound, and the asset worlds     *)
(* relevant to an AST.                                                     *)
(***************************************************************************)
EXTENDS Worlds

CONSTANTS
  Ctx,        \* "bare" | "legacy" | "segwitv0" | "tap"
  KeyIds,     \* e.g. {1, 2, 3}
  HashLeaves, \* set of <<kind, id>>
  Afters,     \* set of absolute lock values
  Olders,     \* set of relative lock values
  MultiKs,    \* set of <<k, keyseq>> for multi / multi_a leaves
  MaxNodes,   \* node bound for WT
  MaxThreshN  \* max number of thresh children

T(a, t) == [a |-> a, t |-> t]

MultiName == IF Ctx = "tap" THEN "multi_a" ELSE "multi"

LeafAsts ==
  {Leaf("0", 0), Leaf("1", 0)}
  \cup {Leaf("pk_k", k) : k \in KeyIds} \cup {Leaf("pk_h", k) : k \in KeyIds}
  \cup {Leaf("older", n) : n \in Olders} \cup {Leaf("after", n) : n \in Afters}
  \cup {Leaf(h[1], h[2]) : h \in HashLeaves}
  \cup {Ast(MultiName, mk[1], mk[2], <<>>) : mk \in MultiKs}

\* pk(K) = c:pk_k(K), pkh(K) = c:pk_h(K) count as one node (they are the leaves users write)
SugarLeafAsts ==
  {Un("c", Leaf("pk_k", k)) : k \in KeyIds} \cup {Un("c", Leaf("pk_h", k)) : k \in KeyIds}

OkOnly(S) == {x \in S : x.t.ok}

\* sequences of child sizes (each >= 1) of length c summing to total
RECURSIVE Splits(_, _)
Splits(total, c) ==
  IF c = 1 THEN (IF total >= 1 THEN {<<total>>} ELSE {})
  ELSE UNION {{<<i>> \o r : r \in Splits(total - i, c - 1)} : i \in 1..(total - c + 1)}

\* all child tuples for a thresh with the given sizes: first child B d u, others W d u
RECURSIVE ThreshKids(_, _, _)
ThreshKids(sizes, i, pools) ==
  IF i > Len(sizes) THEN {<<>>}
  ELSE LET want == IF i = 1 THEN "B" ELSE "W"
           pool == {x \in pools[sizes[i]] : x.t.b = want /\ Has(x.t, {"d", "u"})}
       IN {<<x>> \o r : x \in pool, r \in ThreshKids(sizes, i + 1, pools)}

WT[n \in 1..MaxNodes] ==
  IF n = 1
  THEN OkOnly({T(a, TypeOf(a, Ctx)) : a \in LeafAsts \cup SugarLeafAsts})
  ELSE
    LET un == OkOnly({T(Un(w, x.a), SpecUnType(w, x.t, Ctx)) : w \in Wrappers, x \in WT[n - 1]})
        bin == UNION {OkOnly({T(Bin(f, x.a, y.a), SpecBinType(f, x.t, y.t, Ctx)) :
                               f \in BinFrags, x \in WT[i], y \in WT[n - 1 - i]}) : i \in 1..(n - 2)}
        tern == UNION {OkOnly({T(Tern("andor", x.a, y.a, z.a), SpecAndOrType(x.t, y.t, z.t, Ctx)) :
                                 x \in {q \in WT[s[1]] : q.t.b = "B" /\ Has(q.t, {"d", "u"})},
                                 y \in WT[s[2]], z \in WT[s[3]]}) : s \in Splits(n - 1, 3)}
        thr == UNION {UNION {OkOnly({T(Thresh(k, [i \in 1..c |-> kids[i].a]),
                                       SpecThreshType(k, [i \in 1..c |-> kids[i].t])) :
                                      k \in 1..c, kids \in ThreshKids(s, 1, [j \in 1..(n - 1) |-> WT[j]])})
                             : s \in Splits(n - 1, c)} : c \in 1..MaxThreshN}
    IN un \cup bin \cup tern \cup thr

WTUpTo(n) == UNION {WT[i] : i \in 1..n}

WorldsOf(m) == WorldsOfCtx(m, Ctx)

=============================================================================
