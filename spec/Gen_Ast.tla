------------------------------- MODULE Gen_Ast -------------------------------
(***************************************************************************)
(* Case generator for the per-AST pipeline (C04, C05, C07, C10, C12, C19,  *)
(* C20): every canonical well-typed miniscript of ANY base type up to      *)
(* MaxNodes, plus every canonical AST - typed or not - up to MaxAllNodes.  *)
(***************************************************************************)
EXTENDS AstGen, Json, IOUtils

CONSTANTS MaxAllNodes, WrapStride

\* all ASTs, typed or not (binary/unary/ternary shapes; thresh with <= 2 children)
AllAst[n \in 1..MaxAllNodes] ==
  IF n = 1 THEN LeafAsts \cup SugarLeafAsts \cup CrossLeaves
  ELSE {Un(w, x) : w \in Wrappers, x \in AllAst[n - 1]}
       \cup UNION {{Bin(f, x, y) : f \in BinFrags, x \in AllAst[i], y \in AllAst[n - 1 - i]} : i \in 1..(n - 2)}
       \cup UNION {{Tern("andor", x, y, z) : x \in AllAst[s[1]], y \in AllAst[s[2]], z \in AllAst[s[3]]}
                   : s \in Splits(n - 1, 3)}
       \cup {Thresh(k, <<x>>) : k \in {1, 2}, x \in AllAst[n - 1]}
       \cup UNION {{Thresh(k, <<x, y>>) : k \in {0, 1, 2, 3}, x \in AllAst[i], y \in AllAst[n - 1 - i]} : i \in 1..(n - 2)}

m_k_ok(a) == a.f \notin {"multi", "multi_a", "sortedmulti", "sortedmulti_a"} \/ (a.n >= 1 /\ a.n <= Len(a.ks))
Typed0 == {x.a : x \in {y \in WTUpTo(MaxNodes) : KeyCanonical(y.a)}}
TypedComp == (CompKept \cup Comp2Kept \cup PrefixedKept \cup LockMix(WrapStride) \cup NestedChoice(NCKeep, CompSeed) \cup ThreshMix(NCKeep)) \ Typed0
TypedWrap == (({x.a : x \in {y \in WrappedTyped(WrapStride, CompSeed) : KeyCanonical(y.a)}}
               \cup {x.a : x \in WrappedConj(WrapStride)}) \ Typed0) \ TypedComp
\* number boundaries, wide multisigs (typed or not: the library decides, L1 judges), hash kinds
TypedExtra0 == {a \in NumBoundary(WrapStride) \cup WideMulti(WrapStride) : TypeOf(a, Ctx).ok /\ m_k_ok(a)}
TypedExtra == (TypedExtra0 \cup {a \in HashSwapped(Typed0 \cup TypedComp) : TypeOf(a, Ctx).ok}) \ (Typed0 \cup TypedComp \cup TypedWrap)
Typed == Typed0 \cup TypedComp \cup TypedWrap \cup TypedExtra
Untyped == {a \in UNION {AllAst[i] : i \in 1..MaxAllNodes} : KeyCanonical(a)} \ Typed

CaseSeq ==
  LET S == SetToSeq(Typed0)  C == SetToSeq(TypedComp)  W == SetToSeq(TypedWrap)  U == SetToSeq(Untyped)
      X == SetToSeq(TypedExtra \cup {a \in NumBoundary(WrapStride) \cup WideMulti(WrapStride) : ~(TypeOf(a, Ctx).ok /\ m_k_ok(a))}) IN
  [i \in 1..Len(S) |-> [id |-> i, ctx |-> Ctx, ast |-> S[i], dom |-> "wt"]]
  \o [i \in 1..Len(C) |-> [id |-> Len(S) + i, ctx |-> Ctx, ast |-> C[i], dom |-> "comp"]]
  \o [i \in 1..Len(W) |-> [id |-> Len(S) + Len(C) + i, ctx |-> Ctx, ast |-> W[i], dom |-> "wrap"]]
  \o [i \in 1..Len(X) |-> [id |-> Len(S) + Len(C) + Len(W) + Len(U) + i, ctx |-> Ctx, ast |-> X[i], dom |-> "extra"]]
  \o [i \in 1..Len(U) |-> [id |-> Len(S) + Len(C) + Len(W) + i, ctx |-> Ctx, ast |-> U[i], dom |-> "all"]]

ASSUME ndJsonSerialize(IOEnv.OUT, CaseSeq)
ASSUME PrintT("GEN " \o ToJson(<<"cases", Len(CaseSeq), Cardinality(Typed), Cardinality(Untyped)>>))
=============================================================================
