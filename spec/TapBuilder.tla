------------------------------ MODULE TapBuilder ------------------------------
(***************************************************************************)
(* L2: the incremental builder that turns the text of a taproot tree into  *)
(* the list of (depth, leaf) pairs (src/descriptor/tr/taptree.rs           *)
(* TapTreeBuilder, driven by Tr::from_tree): a state machine fed with the  *)
(* pre-order traversal of the expression tree - one push_inner_node per    *)
(* branch, one push_leaf per leaf.                                         *)
(*                                                                         *)
(*   leaves    pairs [d, k] recorded so far                                *)
(*   complete  heights (1..127) at which one child has been completed      *)
(*   c128      the same for height 128, which does not fit the bitmap      *)
(*   h         current height                                              *)
(*   err       the depth limit was exceeded                                *)
(*                                                                         *)
(* Property (MC_TapBuilder): fed with the pre-order of any tree of height  *)
(* <= 128 the machine ends with leaves = DepthList(tree) and h = 0; a tree *)
(* of height > 128 ends in err.  Trace_Tap compares the real parser's      *)
(* depth list with the machine's.                                          *)
(***************************************************************************)
EXTENDS Taproot

MAX_NODES == 128

\* pre-order tokens: 0 = branch, k > 0 = leaf k
RECURSIVE PreOrder(_)
PreOrder(tr) == IF tr.t = "leaf" THEN <<tr.k>> ELSE <<0>> \o PreOrder(tr.xs[1]) \o PreOrder(tr.xs[2])

BInit == [leaves |-> <<>>, complete |-> {}, c128 |-> FALSE, h |-> 0, err |-> FALSE]

PushInner(s) == IF s.h + 1 > MAX_NODES THEN [s EXCEPT !.h = s.h + 1, !.err = TRUE] ELSE [s EXCEPT !.h = s.h + 1]

\* climb while the current height already has one completed child
RECURSIVE Climb(_)
Climb(s) ==
  IF s.h = 0 THEN s
  ELSE IF s.h \notin s.complete THEN [s EXCEPT !.complete = @ \cup {s.h}]
  ELSE Climb([s EXCEPT !.complete = @ \ {s.h}, !.h = s.h - 1])

PushLeaf(s, k) ==
  LET s1 == [s EXCEPT !.leaves = Append(@, [d |-> s.h, k |-> k])] IN
  IF s1.h = MAX_NODES
  THEN IF s1.c128 THEN Climb([s1 EXCEPT !.c128 = FALSE, !.h = s1.h - 1])
       ELSE [s1 EXCEPT !.c128 = TRUE]
  ELSE Climb(s1)

BStep(s, tok) == IF s.err THEN s ELSE IF tok = 0 THEN PushInner(s) ELSE PushLeaf(s, tok)

RECURSIVE BRun(_, _, _)
BRun(s, toks, q) == IF q > Len(toks) THEN s ELSE BRun(BStep(s, toks[q]), toks, q + 1)
\* what the parser records for a depth list given as in the traces (tree rebuilt, then traversed)
BuilderOf(tr) == BRun(BInit, PreOrder(tr), 1)

=============================================================================
