------------------------------- MODULE Gen_Tap -------------------------------
(***************************************************************************)
(* C15 case generator: every binary tree shape with up to MaxLeaves leaves *)
(* (leaves numbered in pre-order, plus variants with repeated scripts),    *)
(* and the two degenerate chains for depths up to 129.                     *)
(***************************************************************************)
EXTENDS Taproot, Json, IOUtils, SequencesExt

CONSTANTS MaxLeaves, ChainDepths

\* shapes with n leaves (leaf ids assigned later)
RECURSIVE Shapes(_)
Shapes(n) == IF n = 1 THEN {TLeaf(0)}
             ELSE UNION {{TNode(l, r) : l \in Shapes(i), r \in Shapes(n - i)} : i \in 1..(n - 1)}

\* number leaves in pre-order starting from `from`; returns [tr, next]
RECURSIVE Number(_, _)
Number(tr, from) ==
  IF tr.t = "leaf" THEN [tr |-> TLeaf(from), next |-> from + 1]
  ELSE LET a == Number(tr.xs[1], from) b == Number(tr.xs[2], a.next) IN [tr |-> TNode(a.tr, b.tr), next |-> b.next]

\* same shape, every leaf script identical / alternating (equal hashes on both sides of a branch)
RECURSIVE Relabel(_, _)
Relabel(tr, m) == IF tr.t = "leaf" THEN TLeaf((tr.k % m) + 1) ELSE TNode(Relabel(tr.xs[1], m), Relabel(tr.xs[2], m))

RECURSIVE LeftChain(_, _)
LeftChain(d, k) == IF d = 0 THEN TLeaf(k) ELSE TNode(LeftChain(d - 1, k + 1), TLeaf(k))
RECURSIVE RightChain(_, _)
RightChain(d, k) == IF d = 0 THEN TLeaf(k) ELSE TNode(TLeaf(k), RightChain(d - 1, k + 1))

Numbered == {Number(s, 1).tr : s \in UNION {Shapes(n) : n \in 1..MaxLeaves}}
Trees == Numbered \cup {Relabel(tr, 1) : tr \in Numbered} \cup {Relabel(tr, 2) : tr \in Numbered}
\* the deep chains are kept out of the set of shapes (normalising a large set that contains
\* 129-deep records overflows TLC's stack) and appended as a sequence
\* a bush at the bottom of a chain: several sibling pairs at the same (maximal) depth
Bush4(k) == TNode(TNode(TLeaf(k), TLeaf(k + 1)), TNode(TLeaf(k + 2), TLeaf(k + 3)))
Bush3(k) == TNode(TNode(TLeaf(k), TLeaf(k + 1)), TLeaf(k + 2))
RECURSIVE LeftChainOver(_, _, _)
LeftChainOver(d, k, bottom) == IF d = 0 THEN bottom ELSE TNode(LeftChainOver(d - 1, k + 1, bottom), TLeaf(k))
RECURSIVE RightChainOver(_, _, _)
RightChainOver(d, k, bottom) == IF d = 0 THEN bottom ELSE TNode(TLeaf(k), RightChainOver(d - 1, k + 1, bottom))
BushSeq == <<LeftChainOver(126, 10, Bush4(1)), RightChainOver(126, 10, Bush4(1)), RightChainOver(125, 10, Bush4(1)),
             RightChainOver(126, 10, Bush3(1)), LeftChainOver(127, 10, Bush4(1)),
             RightChainOver(125, 10, TNode(Bush4(1), Bush4(5)))>>
ChainSeq == LET D == SetToSeq(ChainDepths) IN
            [q \in 1..(2 * Len(D)) |-> IF q <= Len(D) THEN LeftChain(D[q], 1) ELSE RightChain(D[q - Len(D)], 1)] \o BushSeq

TreeSeq == SetToSeq(Trees) \o ChainSeq
Cases == [q \in 1..Len(TreeSeq) |-> [id |-> q, dl |-> DepthList(TreeSeq[q])]]
ASSUME ndJsonSerialize(IOEnv.OUT, Cases)
ASSUME PrintT("GEN " \o ToJson(<<"trees", Len(Cases)>>))
=============================================================================
