------------------------------- MODULE Checksum -------------------------------
(***************************************************************************)
(* L1: the BIP380 descriptor checksum.  The 40-bit BCH register is a       *)
(* sequence of eight 5-bit symbols (TLC integers are 32-bit).  Strings are *)
(* sequences of character codes = positions in INPUT_CHARSET (0..94);      *)
(* checksums are sequences of eight positions in CHECKSUM_CHARSET (0..31). *)
(***************************************************************************)
EXTENDS Integers, Sequences, FiniteSets, TLC, Bitwise

Gens == << <<30, 23, 15, 14, 10, 6, 12, 9>>,
           <<21, 7, 30, 28, 20, 12, 24, 18>>,
           <<3, 14, 21, 17, 1, 24, 25, 13>>,
           <<6, 28, 3, 11, 2, 25, 27, 26>>,
           <<12, 17, 6, 22, 4, 27, 31, 29>> >>

\* TLC may re-evaluate an operator argument at every reference (exponential along the
\* fold); V binds a value once through a singleton comprehension
V(x, F(_)) == CHOOSE r \in {F(v) : v \in {x}} : TRUE

XorReg(a, g) == V(a, LAMBDA aa : [j \in 1..8 |-> aa[j] ^^ g[j]])
Bit(n, q) == (n \div (2 ^ q)) % 2          \* bit q (0 = lowest) of n

\* one PolyMod step: c' = ((c & 0x7ffffffff) << 5) ^ val, then XOR generator q for each set
\* bit q of the symbol shifted out
RECURSIVE ApplyGens(_, _, _)
ApplyGens(reg, top, q) ==
  V(reg, LAMBDA rr :
    IF q > 4 THEN rr
    ELSE ApplyGens(IF Bit(top, q) = 1 THEN XorReg(rr, Gens[q + 1]) ELSE rr, top, q + 1))
PolyMod(c, val) ==
  V(c, LAMBDA cc : V(val, LAMBDA vv : ApplyGens([j \in 1..8 |-> IF j < 8 THEN cc[j + 1] ELSE vv], cc[1], 0)))

RegOne == <<0, 0, 0, 0, 0, 0, 0, 1>>

\* fold over the characters: state [c, cls, cnt]
RECURSIVE Feed(_, _, _)
Feed(st, s, q) ==
  V(st, LAMBDA s0 :
    IF q > Len(s) THEN s0
    ELSE V(PolyMod(s0.c, s[q] % 32), LAMBDA c1 :
         V(s0.cls * 3 + (s[q] \div 32), LAMBDA cls :
           Feed(IF s0.cnt = 2 THEN [c |-> PolyMod(c1, cls), cls |-> 0, cnt |-> 0]
                ELSE [c |-> c1, cls |-> cls, cnt |-> s0.cnt + 1], s, q + 1))))

RECURSIVE Zeros(_, _)
Zeros(c, n) == V(c, LAMBDA cc : IF n = 0 THEN cc ELSE Zeros(PolyMod(cc, 0), n - 1))

Checksum(s) ==
  V(s, LAMBDA ss :
  V(Feed([c |-> RegOne, cls |-> 0, cnt |-> 0], ss, 1), LAMBDA st :
  V(IF st.cnt > 0 THEN PolyMod(st.c, st.cls) ELSE st.c, LAMBDA c1 :
  V(Zeros(c1, 8), LAMBDA c2 : [c2 EXCEPT ![8] = c2[8] ^^ 1]))))

\* a checksummed string payload ++ sum is valid iff the sum is the checksum of the payload
Valid(payload, sum) == Checksum(payload) = sum

(***************************************************************************)
(* Whole strings.  A character is its position in INPUT_CHARSET (0..94) or *)
(* OutCode for anything else; '#' is HashCode.  CkSym maps an input code   *)
(* to its position in CHECKSUM_CHARSET (-1: not a checksum character; the  *)
(* checksum alphabet is lower case only).  Both tables are transcribed     *)
(* from BIP380.                                                            *)
(***************************************************************************)
HashCode == 91
OutCode == 95
CkSym == <<15, -1, 10, 17, 21, 20, 26, 30, 7, 5, -1, -1, -1, -1, -1, -1, -1, -1, 29, -1, 24, 13, 25, 9, 8, 23,
           -1, -1, -1, -1, -1, -1, -1, -1, -1, -1, -1, -1, -1, -1, -1, -1, -1, -1, -1, -1, -1, -1, -1, -1, -1, -1,
           -1, -1, -1, -1, -1, -1, -1, -1, -1, -1, -1, -1, -1, 18, 22, 31, 27, 19, -1, 1, 0, 3, 16, 11, 28, 12, 14,
           6, 4, 2, -1, -1, -1, -1, -1, -1, -1, -1, -1, -1, -1, -1, -1, -1>>
SymOf(code) == CkSym[code + 1]

Hashes(s) == {p \in 1..Len(s) : s[p] = HashCode}

\* a string carries a valid checksum: exactly one '#', only charset characters, eight checksum
\* characters after the '#', and they are the checksum of what precedes it
ValidStr(s) ==
  /\ Cardinality(Hashes(s)) = 1
  /\ \A p \in 1..Len(s) : s[p] # OutCode
  /\ \A h \in Hashes(s) :
       /\ Len(s) - h = 8
       /\ \A q \in (h + 1)..Len(s) : SymOf(s[q]) >= 0
       /\ Checksum([q \in 1..(h - 1) |-> s[q]]) = [q \in 1..8 |-> SymOf(s[h + q])]

\* positions at which two strings of equal length differ
Diff(s, t) == {p \in 1..Len(s) : s[p] # t[p]}
\* all differences stay inside group 0 (codes 0..31: digits, punctuation, a-h)
InGroup(s, t) == \A p \in Diff(s, t) : s[p] < 32 /\ t[p] < 32
=============================================================================
