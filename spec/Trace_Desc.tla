------------------------------- MODULE Trace_Desc -------------------------------
(***************************************************************************)
(* C16: the commuting diagram of a descriptor's standard encodings.  The   *)
(* byte-level facts (template recognition, hash equalities, address        *)
(* decoding, BIP32 derivation) are alpha's, established with rust-bitcoin  *)
(* only; this module states which facts each output type requires, and    *)
(* compares alpha(explicit script) with MsSpec!Encode of the intended      *)
(* miniscript over the independently derived keys.                         *)
(***************************************************************************)
EXTENDS MsSpec, Json, IOUtils, SequencesExt

ASSUME TLCSet(1, ndJsonDeserialize(IOEnv.TRACE))
Rec == TLCGet(1)
NB == 64

VARIABLES b, i
Init == b = 0 /\ i = 0
Next == \/ b = 0 /\ b' \in 1..NB /\ i' = 0
        \/ b > 0 /\ i = 0 /\ b' = b /\ i' \in {j \in 1..Len(Rec) : j % NB = b - 1}

Report(prop, clause, ev, detail) == PrintT("VERDICT " \o ToJson(<<prop, clause, ev.id, 0, detail>>))

Pk(k) == Un("c", Leaf("pk_k", k))

\* the miniscript a wrap denotes, over key ids 1..n in *listed* order; `rank` = ids in BIP67 order
InnerAst(w, rank) ==
  CASE w = "bare_pk" -> Pk(1)
    [] w = "bare_multi" -> Multi(1, <<1, 2>>)
    [] w \in {"sh_multi", "wsh_multi"} -> Multi(2, <<1, 2, 3>>)
    [] w = "shwsh_multi" -> Multi(2, <<1, 2>>)
    [] w \in {"sh_sortedmulti", "wsh_sortedmulti", "shwsh_sortedmulti"} -> Multi(2, rank)
    [] w = "wsh_andv" -> Bin("and_v", Un("v", Pk(1)), Pk(2))
    [] OTHER -> Leaf("0", 0)

CtxOfWrap(w) == IF w \in {"bare_pk", "bare_multi"} THEN "bare"
                ELSE IF w \in {"sh_multi", "sh_sortedmulti"} THEN "legacy"
                ELSE IF w \in {"tr_key", "tr_tree", "tr_sortedmulti_a"} THEN "tap" ELSE "segwitv0"

Template(w) ==
  CASE w \in {"bare_pk", "bare_multi"} -> "bare"
    [] w = "pkh" -> "p2pkh"
    [] w = "wpkh" -> "p2wpkh"
    [] w \in {"shwpkh", "sh_multi", "sh_sortedmulti", "shwsh_multi", "shwsh_sortedmulti"} -> "p2sh"
    [] w \in {"wsh_multi", "wsh_sortedmulti", "wsh_andv"} -> "p2wsh"
    [] OTHER -> "p2tr"

SortedWrap(w) == w \in {"sh_sortedmulti", "wsh_sortedmulti", "shwsh_sortedmulti", "tr_sortedmulti_a"}
HasExplicit(w) == w \notin {"pkh", "wpkh", "shwpkh", "tr_key", "tr_tree", "tr_sortedmulti_a"}

\* derivation is defined exactly for non-multipath descriptors without hardened wildcard and idx < 2^31
DerivOK(ev) ==
  /\ \A q \in 1..Len(ev.forms) : ev.forms[q] \notin {"multipath2", "multipath3", "hardened_wild"}
  /\ ev.idx # "2147483648"
HasWild(ev) == \E q \in 1..Len(ev.forms) : ev.forms[q] \in {"xpub_wild", "origin_wild", "multipath2", "multipath3", "hardened_wild"}
IsMultipath(ev) == \E q \in 1..Len(ev.forms) : ev.forms[q] \in {"multipath2", "multipath3"}
NAlt(ev) == IF \E q \in 1..Len(ev.forms) : ev.forms[q] = "multipath3" THEN 3 ELSE 2
MixedMultipath(ev) == (\E q \in 1..Len(ev.forms) : ev.forms[q] = "multipath3") /\ (\E q \in 1..Len(ev.forms) : ev.forms[q] = "multipath2")

JudgeEvent(ev) ==
  /\ (~ev.panic \/ Report("C11", "descriptor_panic", ev, ev.msg))
  /\ (ev.panic \/
      \* alternatives of different lengths have no defined split (BIP389): the descriptor must be
      \* refused at parse time or by the split itself, never split silently
      /\ (~MixedMultipath(ev) \/ ~ev.parsed \/ ev.singles_n = -1 \/ Report("C16", "inconsistent_multipath_split_silently", ev, ev.singles_n))
      /\ (MixedMultipath(ev) \/ ev.parsed \/ Report("C16", "valid_descriptor_rejected", ev, ev.msg))
      /\ (~ev.parsed \/ MixedMultipath(ev) \/
          /\ (ev.has_wildcard = HasWild(ev) \/ Report("C16", "has_wildcard_wrong", ev, ""))
          /\ (ev.is_multipath = IsMultipath(ev) \/ Report("C16", "is_multipath_wrong", ev, ""))
          \* multipath split
          /\ (~IsMultipath(ev) \/
              /\ (ev.singles_n = NAlt(ev) \/ Report("C16", "multipath_split_count", ev, <<ev.singles_n, NAlt(ev)>>))
              /\ (ev.singles_match \/ Report("C16", "multipath_split_differs_from_selected_alternatives", ev, "")))
          /\ (IsMultipath(ev) \/ ev.singles_n = 1 \/ Report("C16", "single_path_descriptor_split", ev, ev.singles_n))
          \* derivation
          /\ ((~HasWild(ev) \/ ev.derived = DerivOK(ev)) \/ Report("C16", IF ev.derived THEN "derivation_should_fail" ELSE "derivation_failed", ev, ev.msg))
          /\ (~ev.derived \/
              LET w == ev.wrap
                  ctx == CtxOfWrap(w)
                  f == ev.facts
              IN
              /\ (f.template = Template(w) \/ Report("C16", "script_pubkey_template", ev, <<f.template, Template(w)>>))
              /\ (f.commit_ok \/ Report("C16", "script_pubkey_does_not_commit_to_explicit_script", ev, ""))
              /\ (~HasExplicit(w) \/ f.explicit_ops = Encode(InnerAst(w, ev.rank), ctx)
                  \/ Report("C16", "explicit_script_is_not_standard_encoding_over_derived_keys", ev, ""))
              /\ (HasExplicit(w) \/ f.keys_ok \/ Report("C16", "output_not_derived_from_expected_key", ev, ""))
              /\ (f.address_ok \/ Report("C16", "address_disagrees_with_script_pubkey", ev, f.address_msg))
              /\ (f.script_code_ok \/ Report("C16", "script_code_not_standard", ev, ""))
              /\ (f.unsigned_ssig_ok \/ Report("C16", "unsigned_script_sig_not_standard", ev, ""))
              /\ (f.find_index_ok \/ Report("C16", "find_derivation_index_wrong", ev, f.find_index_msg))
              \* sorted multisig outputs do not depend on the listed key order; unsorted ones may
              \* (for tr the first listed key is the internal key, which is not part of the sorted set)
              /\ (~SortedWrap(w) \/ (w = "tr_sortedmulti_a" /\ ev.perm[1] # 1) \/ f.same_spk_as_identity_order
                  \/ Report("C16", "sortedmulti_depends_on_key_order", ev, "")))))

Inv == i > 0 => JudgeEvent(Rec[i])
Post == PrintT("TRACE_DONE " \o ToJson(<<Len(Rec), TLCGet("stats").distinct>>))
=============================================================================
