------------------------------ MODULE Gen_Cksum ------------------------------
(***************************************************************************)
(* C10 case generator for the checksum / descriptor-text pipeline: output  *)
(* types x key forms, a few miniscript descriptors, and for each the       *)
(* corruption plan (how many mutants per class the harness must try).      *)
(* Class "one" is always exhaustive: every position x every character.     *)
(***************************************************************************)
EXTENDS Integers, Sequences, FiniteSets, TLC, Json, IOUtils, SequencesExt

CONSTANTS Tier, NTwo, NGroup, Seed

Wraps == <<[w |-> "bare_pk", n |-> 1], [w |-> "bare_multi", n |-> 2], [w |-> "pkh", n |-> 1], [w |-> "wpkh", n |-> 1],
           [w |-> "shwpkh", n |-> 1], [w |-> "sh_multi", n |-> 3], [w |-> "sh_sortedmulti", n |-> 3],
           [w |-> "wsh_multi", n |-> 3], [w |-> "wsh_sortedmulti", n |-> 3], [w |-> "wsh_andv", n |-> 2],
           [w |-> "shwsh_multi", n |-> 2], [w |-> "shwsh_sortedmulti", n |-> 3], [w |-> "tr_key", n |-> 1],
           [w |-> "tr_tree", n |-> 3], [w |-> "tr_sortedmulti_a", n |-> 3],
           \* descriptors over miniscripts with hashes, time locks, wrappers and sugar (harness catalogue)
           [w |-> "ms1", n |-> 3], [w |-> "ms2", n |-> 3], [w |-> "ms3", n |-> 3], [w |-> "ms4", n |-> 3],
           [w |-> "ms5", n |-> 3], [w |-> "ms6", n |-> 3], [w |-> "long", n |-> 3]>>

Forms == <<"single", "xpub", "xpub_path", "xpub_wild", "origin_wild", "multipath2", "multipath3", "hardened_wild">>

Uniform(n) == {[q \in 1..n |-> f] : f \in Range(Forms)}
Mixed(n) == IF n >= 2 THEN {[q \in 1..n |-> IF q = 1 THEN "origin_wild" ELSE IF q = 2 THEN "xpub_path" ELSE "xpub_wild"],
                            [q \in 1..n |-> IF q = 1 THEN "single" ELSE "multipath2"]}
            ELSE {}
\* single-key outputs see every key form also in the quick tier
QuickForms(n) == IF n = 1 THEN Uniform(n) ELSE {[q \in 1..n |-> f] : f \in {"single", "origin_wild", "multipath2"}} \cup Mixed(n)

FormTuples(n) == IF Tier = "quick" THEN QuickForms(n) ELSE Uniform(n) \cup Mixed(n)

Cases0 == UNION {{[wrap |-> Wraps[q].w, forms |-> ft, n_two |-> NTwo, n_group |-> NGroup, seed |-> Seed]
                  : ft \in FormTuples(Wraps[q].n)} : q \in 1..Len(Wraps)}

CaseSeq == LET S == SetToSeq(Cases0) IN [q \in 1..Len(S) |-> S[q] @@ [id |-> q]]
ASSUME ndJsonSerialize(IOEnv.OUT, CaseSeq)
ASSUME PrintT("GEN " \o ToJson(<<"cases", Len(CaseSeq)>>))
=============================================================================
