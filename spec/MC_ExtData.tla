----------------------------- MODULE MC_ExtData -----------------------------
(***************************************************************************)
(* The static figures as the implementation derives them (ExtData.tla)     *)
(* against the rest of the specification, without the library: for every   *)
(* well-typed B miniscript up to MaxNodes                                  *)
(*   Size    the script-size figure equals ByteLen(Encode(m))              *)
(*   Bound   in every relevant world and in both modes, the witness the     *)
(*           satisfier algorithm (Satisfier.tla, itself checked against    *)
(*           SatSet by MC_Satisfier) produces has at most `c` elements and *)
(*           at most `w` witness bytes / `s` scriptSig bytes, and a        *)
(*           satisfaction exists only if the figures do                    *)
(*   Weight  under every output type of the context, the weight such a     *)
(*           witness adds to the input is at most the descriptor-level     *)
(*           max_weight_to_satisfy                                         *)
(***************************************************************************)
EXTENDS ExtData, Satisfier, AstGen, Verify, Json, IOUtils

ASSUME TLCSet(1, SetToSeq({x.a : x \in {y \in WTUpTo(MaxNodes) : y.t.b = "B" /\ KeyCanonical(y.a)}}))
Frags == TLCGet(1)
NB == 64

VARIABLES b, i
Init == b = 0 /\ i = 0
Next == \/ b = 0 /\ b' \in 1..NB /\ i' = 0
        \/ b > 0 /\ i = 0 /\ b' = b /\ i' \in {j \in 1..Len(Frags) : j % NB = b - 1}

Report(clause, m, detail) == PrintT("VERDICT " \o ToJson(<<"L2", clause, m, detail>>))

JudgeOne(m, e, w) ==
  \A g \in {LSat(m, w, Ctx, FALSE), LSat(m, w, Ctx, TRUE)} :
    g.k # "st" \/
    /\ (e.sat.some \/ Report("satisfied_without_figures", m, g.w))
    /\ (~e.sat.some \/
        /\ (Len(g.w) <= e.sat.c \/ Report("element_count_exceeds_figure", m, <<g.w, e.sat.c>>))
        /\ (IF RulesOf(Ctx) = "legacy"
            THEN SsigBytes(g.w, 1, "legacy") <= e.sat.s \/ Report("scriptsig_bytes_exceed_figure", m, <<g.w, e.sat.s>>)
            ELSE WitBytes(g.w, 1, RulesOf(Ctx)) <= e.sat.w \/ Report("witness_bytes_exceed_figure", m, <<g.w, e.sat.w>>)))

\* the weight a witness of the satisfier model adds to the input under an output type (worst-case
\* signature sizes), to be bounded by the descriptor-level figure
WrapsOfCtx == CASE Ctx = "bare" -> {"bare"} [] Ctx = "legacy" -> {"sh"} [] Ctx = "segwitv0" -> {"wsh", "shwsh"} [] OTHER -> {"tr"}
WeightOf(wrap, st, pk) ==
  LET wsh == (EDVarintLen(Len(st) + 1) - 1) + WitBytes(st, 1, "segwitv0") + EDVarintLen(pk) + pk IN
  CASE wrap = "bare" -> LET ss == SsigBytes(st, 1, "legacy") IN 4 * ((EDVarintLen(ss) - 1) + ss)
    [] wrap = "sh" -> LET ss == SsigBytes(st, 1, "legacy") + EDPushOpLen(pk) + pk IN 4 * ((EDVarintLen(ss) - 1) + ss)
    [] wrap = "wsh" -> wsh
    [] wrap = "shwsh" -> 4 * 35 + wsh
    [] wrap = "tr" -> (EDVarintLen(Len(st) + 2) - 1) + WitBytes(st, 1, "tap") + EDVarintLen(pk) + pk + 1 + 33
JudgeWeight(m, e, w) ==
  \A g \in {LSat(m, w, Ctx, FALSE), LSat(m, w, Ctx, TRUE)} : \A wrap \in WrapsOfCtx :
    g.k # "st" \/ WeightOf(wrap, g.w, e.pk) <= DescMaxWeight(wrap, m, Ctx, 0)
    \/ Report("weight_exceeds_descriptor_figure", m, <<wrap, g.w, WeightOf(wrap, g.w, e.pk), DescMaxWeight(wrap, m, Ctx, 0)>>)

Inv == i > 0 =>
  \A e \in {Ext(Frags[i], Ctx)} :
    /\ (e.pk = ByteLen(Encode(Frags[i], Ctx)) \/ Report("script_size_differs", Frags[i], <<e.pk, ByteLen(Encode(Frags[i], Ctx))>>))
    /\ \A w \in WorldsOf(Frags[i]) : JudgeOne(Frags[i], e, w) /\ JudgeWeight(Frags[i], e, w)
Post == PrintT("MC_DONE " \o ToJson(<<Len(Frags), TLCGet("stats").distinct>>))
=============================================================================
