---------------------------- MODULE Trace_NonMall ----------------------------
(***************************************************************************)
(* C03: a non-malleable satisfaction of a sane descriptor is the ONLY      *)
(* witness a third party can get accepted under standardness rules.        *)
(* Input: the `sat` observations.  For every distinct (witness, env) the   *)
(* library produced in non-malleable mode (get_satisfaction, and plan +     *)
(* Plan::satisfy) for a sane script, TLC searches                           *)
(* the adversary's space: all stacks of length <= |w|+1 over               *)
(*   elements of the original witness (the only signatures a third party   *)
(*   sees), empty, 0x01, 32 zero bytes, every preimage, every public key,  *)
(*   junk, 32-byte junk                                                    *)
(* and runs each through the Script VM with the real script.  Witnesses    *)
(* longer than MAXS are attacked with the restricted adversary (one        *)
(* position replaced / dropped / one element inserted).                    *)
(***************************************************************************)
EXTENDS Validation, Verify, Json, IOUtils, FiniteSetsExt

ASSUME TLCSet(1, ndJsonDeserialize(IOEnv.TRACE))
Rec == TLCGet(1)
MaxN == atoi(IOEnv.MAXN)
MaxS == atoi(IOEnv.MAXS)
NB == 64

VARIABLES b, i
Init == b = 0 /\ i = 0
Next == \/ b = 0 /\ b' \in 1..NB /\ i' = 0
        \/ b > 0 /\ i = 0 /\ b' = b /\ i' \in {j \in 1..Len(Rec) : j % NB = b - 1}

Report(prop, clause, ev, j, detail) == PrintT("VERDICT " \o ToJson(<<prop, clause, ev.id, j, detail>>))

RECURSIVE Stacks(_, _)
Stacks(A, n) == IF n = 0 THEN {<<>>}
                ELSE LET S == Stacks(A, n - 1) IN S \cup {Append(s, a) : s \in {q \in S : Len(q) = n - 1}, a \in A}

AdvAlphabet(m, ctx, s) ==
  Range(s) \cup {E0, E1, Z32, J32(1), Junk(1)}
  \cup {Pre(h[2], h[1]) : h \in HashesOf(m)}
  \cup {Key(k, KeyForm(ctx)) : k \in KeysOf(m)}

\* restricted adversary for long witnesses
Neighbours(A, s) ==
  {[s EXCEPT ![p] = a] : p \in 1..Len(s), a \in A}
  \cup {SubSeq(s, 1, p - 1) \o SubSeq(s, p + 1, Len(s)) : p \in 1..Len(s)}
  \cup {SubSeq(s, 1, p) \o <<a>> \o SubSeq(s, p + 1, Len(s)) : p \in 0..Len(s), a \in A}

JudgeEvent(ev) ==
  LET ctx == ev.ctx
      cands == {j \in 1..Len(ev.res) : ev.res[j].r = "ok" /\ ev.res[j].mode = "nonmall" /\ ev.res[j].route \in {"desc", "plan"}}
      \* distinct (stack, env) pairs, remembered with one representative index
      key(j) == <<ev.res[j].inp.stack, ev.res[j].w.env>>
      reps == {j \in cands : \A q \in cands : key(q) = key(j) => j <= q}
  IN
  \A j \in reps :
    LET r   == ev.res[j]
        inp == IF r.inp.script_same THEN [r.inp EXCEPT !.script = ev.st.script] ELSE r.inp
        env == [r.w.env EXCEPT !.rules = inp.rules, !.std = TRUE]
        s   == inp.stack
        A   == AdvAlphabet(ev.ast, ctx, s)
        full == Len(s) <= MaxS
        space == (IF full THEN Stacks(A, Len(s) + 1) ELSE Neighbours(A, s)) \ {s}
        wins == {t \in space : VerifyInput([inp EXCEPT !.stack = t], env)}
    IN /\ (wins = {} \/ Report("C03", "third_party_alternative_witness", ev, j,
                               [orig |-> s, alt |-> CHOOSE t \in wins : TRUE, n |-> Cardinality(wins), full |-> full]))
       /\ PrintT("ADV " \o ToJson(<<ev.id, j, Cardinality(space), full>>))

\* every sane script of the case file: the exhaustive part and the larger sampled families
\* (the adversary's cost depends on the witness length, bounded by MaxS, not on the node count)
Relevant(ev) == ev.parse = "ok" /\ ev.st.ms.sane

Inv == i > 0 => (~Relevant(Rec[i]) \/ JudgeEvent(Rec[i]))
Post == PrintT("TRACE_DONE " \o ToJson(<<Len(Rec), TLCGet("stats").distinct>>))
=============================================================================
