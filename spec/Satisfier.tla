------------------------------ MODULE Satisfier ------------------------------
(***************************************************************************)
(* L2: the satisfier's ALGORITHM, shaped like the implementation           *)
(* (src/miniscript/satisfy/sat_dissat.rs, Satisfaction::{minimum,          *)
(* minimum_mall, thresh, thresh_mall, concatenate_rev}): one candidate     *)
(* (dissatisfaction, satisfaction) pair per node, bottom-up, with the      *)
(* bookkeeping the chooser works on: availability class, cost, has_sig,    *)
(* time locks.  It predicts the EXACT witness the library returns, where   *)
(* L1 (MsSpec!SatSet) only says which witnesses are valid.                 *)
(*                                                                         *)
(* A candidate is [k, w, sig, rel, abs]:                                   *)
(*   k    "st" a stack | "un" unavailable (assets missing) | "im" impossible*)
(*   w    the stack, bottom -> top, in the element vocabulary of Script.tla *)
(*   sig  the candidate contains a signature                               *)
(*   rel / abs  lock the candidate relies on (-1 = none)                    *)
(*                                                                         *)
(* Properties of the algorithm itself are checked by MC_Satisfier; the     *)
(* implementation is compared with it in Trace_Sat (a difference that is   *)
(* still a valid answer by L1 is reported as drift, not as a violation).   *)
(***************************************************************************)
EXTENDS MsSpec

Cand(k, w, sig, rel, abs) == [k |-> k, w |-> w, sig |-> sig, rel |-> rel, abs |-> abs]
Stk(w)      == Cand("st", w, FALSE, -1, -1)
Trivial     == Stk(<<>>)
Impossible  == Cand("im", <<>>, FALSE, -1, -1)
Unavailable == Cand("un", <<>>, FALSE, -1, -1)
Push0       == Stk(<<E0>>)

\* the sizes the chooser compares (util::ItemSize for Placeholder): signatures 73 (ECDSA) or
\* 64 + 1 (Schnorr, default sighash), keys 34 / 33, preimages and hash dissatisfactions 33,
\* OP_1 2, empty push 1; plus one byte for the item count
ItemCost(e, ctx) ==
  CASE e.t = "sig" -> IF ctx = "tap" THEN 65 ELSE 73
    [] e.t = "key" -> IF ctx = "tap" THEN 33 ELSE 34
    [] e.t \in {"pre", "z32"} -> 33
    [] e.t = "num" -> 2
    [] OTHER -> 1
RECURSIVE SumCost(_, _, _)
SumCost(w, q, ctx) == IF q > Len(w) THEN 0 ELSE ItemCost(w[q], ctx) + SumCost(w, q + 1, ctx)
WitCost(w, ctx) == SumCost(w, 1, ctx) + 1

\* Ord for Witness: stacks by cost, any stack < impossible < unavailable
Less(a, c, ctx) ==
  CASE a.k = "st" /\ c.k = "st" -> WitCost(a.w, ctx) < WitCost(c.w, ctx)
    [] a.k = "st" -> TRUE
    [] c.k = "st" -> FALSE
    [] OTHER -> a.k = "im" /\ c.k = "un"

\* Witness::combine: first argument below the second
Combine(a, c) ==
  IF a.k = "im" \/ c.k = "im" THEN "im" ELSE IF a.k = "un" \/ c.k = "un" THEN "un" ELSE "st"

\* same-unit locks merge to the later one, different units cannot be met together
RelMax(a, c) == IF a = -1 THEN c ELSE IF c = -1 THEN a
                ELSE IF ((a \div SEQ_TYPE_FLAG) % 2) # ((c \div SEQ_TYPE_FLAG) % 2) THEN -2
                ELSE IF a >= c THEN a ELSE c
AbsMax(a, c) == IF a = -1 THEN c ELSE IF c = -1 THEN a
                ELSE IF (a < LOCKTIME_THRESHOLD) # (c < LOCKTIME_THRESHOLD) THEN -2
                ELSE IF a >= c THEN a ELSE c

\* self.concatenate_rev(other): other's stack below self's
ConcatRev(self, other) ==
  IF self.k = "im" \/ other.k = "im" THEN Impossible
  ELSE LET r == RelMax(self.rel, other.rel)  a == AbsMax(self.abs, other.abs) IN
       IF r = -2 \/ a = -2 THEN Impossible
       ELSE LET k == Combine(other, self) IN
            Cand(k, IF k = "st" THEN other.w \o self.w ELSE <<>>, self.sig \/ other.sig, r, a)

\* stack of `c` with one more element on top
OnTop(c, e) == IF c.k = "st" THEN [c EXCEPT !.w = Append(c.w, e)] ELSE c

Minimum(a, c, ctx) ==
  IF a.k = "im" THEN c
  ELSE IF c.k = "im" THEN a
  ELSE IF ~a.sig /\ ~c.sig THEN Unavailable
  ELSE IF ~a.sig THEN [a EXCEPT !.sig = FALSE]
  ELSE IF ~c.sig THEN [c EXCEPT !.sig = FALSE]
  ELSE IF Less(a, c, ctx) THEN a ELSE c

MinimumMall(a, c, ctx) ==
  IF a.k \in {"im", "un"} THEN c
  ELSE IF c.k \in {"im", "un"} THEN a
  ELSE [(IF Less(a, c, ctx) THEN a ELSE c) EXCEPT !.sig = a.sig /\ c.sig]

MinFn(mall, a, c, ctx) == IF mall THEN MinimumMall(a, c, ctx) ELSE Minimum(a, c, ctx)

(***************************************************************************)
(* thresholds: stable sort of the members by the chooser's key, the first  *)
(* k take their satisfaction                                               *)
(***************************************************************************)
BIG == 1000000
Weight(s, d, ctx) ==
  IF s.k # "st" THEN BIG ELSE IF d.k # "st" THEN 0 - BIG ELSE WitCost(s.w, ctx) - WitCost(d.w, ctx)
B2N(x) == IF x THEN 1 ELSE 0
\* lexicographic key (is_impossible, has_sig, weight); malleable mode: weight only
KeyLess(mall, sats, dis, p, q, ctx) ==
  LET wp == Weight(sats[p], dis[p], ctx)  wq == Weight(sats[q], dis[q], ctx) IN
  IF mall THEN wp < wq \/ (wp = wq /\ p < q)
  ELSE LET ip == B2N(sats[p].k = "im")  iq == B2N(sats[q].k = "im")
           sp == B2N(sats[p].sig)  sq == B2N(sats[q].sig) IN
       \/ ip < iq
       \/ ip = iq /\ sp < sq
       \/ ip = iq /\ sp = sq /\ wp < wq
       \/ ip = iq /\ sp = sq /\ wp = wq /\ p < q      \* stable
Order(mall, sats, dis, ctx) == SortSeq([q \in 1..Len(sats) |-> q], LAMBDA p, q : KeyLess(mall, sats, dis, p, q, ctx))

RECURSIVE FoldRev(_, _, _)
\* fold(empty, concatenate_rev) over xs[q..]: member 1 ends up on top
FoldRev(xs, q, acc) == IF q > Len(xs) THEN acc ELSE FoldRev(xs, q + 1, ConcatRev(acc, xs[q]))

ThreshSat(mall, k, sats, dis, ctx) ==
  LET n == Len(sats)
      ord == Order(mall, sats, dis, ctx)
      chosen == {ord[q] : q \in 1..k}
      ret == [q \in 1..n |-> IF q \in chosen THEN sats[q] ELSE dis[q]]
      \* after the swap `sats[i]` of a chosen member holds its dissatisfaction
      left(q) == IF q \in chosen THEN dis[q] ELSE sats[q]
  IN
  IF mall THEN FoldRev(ret, 1, Trivial)
  \* (the implementation inspects the swapped slot of the k-th chosen member, i.e. its
  \* dissatisfaction; an impossible satisfaction among the chosen ones surfaces through the fold)
  ELSE IF left(ord[k]).k = "im" THEN Impossible
  \* a member that was NOT chosen although it could be satisfied without a signature (or whose
  \* signature-less satisfaction is merely unavailable) is a malleability vector: refuse
  ELSE IF ~left(ord[k + 1]).sig /\ left(ord[k + 1]).k # "im" THEN Unavailable
  ELSE FoldRev(ret, 1, Trivial)

(***************************************************************************)
(* leaves                                                                  *)
(***************************************************************************)
SigOf(k, w) == IF k \in w.sigs THEN Cand("st", <<Sig(k, "good")>>, TRUE, -1, -1) ELSE Cand("im", <<>>, TRUE, -1, -1)

RECURSIVE FirstK(_, _, _, _)
\* multi: the first k available signatures in key order (the dearest are thrown away, and of
\* equally dear ones the last)
FirstK(ks, q, k, w) ==
  IF q > Len(ks) \/ k = 0 THEN <<>>
  ELSE IF ks[q] \in w.sigs THEN <<Sig(ks[q], "good")>> \o FirstK(ks, q + 1, k - 1, w)
  ELSE FirstK(ks, q + 1, k, w)
Avail(ks, w) == Cardinality({q \in 1..Len(ks) : ks[q] \in w.sigs})

RECURSIVE LastK(_, _, _, _)
\* multi_a: walking the keys from the last to the first, the first k available sign, the others
\* get an empty element; result bottom -> top = last key ... first key
LastK(ks, q, k, w) ==
  IF q = 0 THEN <<>>
  ELSE IF k > 0 /\ ks[q] \in w.sigs THEN <<Sig(ks[q], "good")>> \o LastK(ks, q - 1, k - 1, w)
  ELSE <<E0>> \o LastK(ks, q - 1, k, w)

LockCand(ok, rootsig, rel, abs) ==
  IF ok THEN Cand("st", <<>>, FALSE, rel, abs) ELSE IF rootsig THEN Impossible ELSE Unavailable

(***************************************************************************)
(* the bottom-up pass: [s |-> satisfaction, d |-> dissatisfaction]         *)
(***************************************************************************)
RECURSIVE LSD(_, _, _, _, _)
LSD(m, w, ctx, mall, rootsig) ==
  LET f == m.f
      kf == KeyForm(ctx)
      X == LSD(m.xs[1], w, ctx, mall, rootsig)
      Y == LSD(m.xs[2], w, ctx, mall, rootsig)
      Z == LSD(m.xs[3], w, ctx, mall, rootsig)
      P(s, d) == [s |-> s, d |-> d]
  IN
  CASE f = "0" -> P(Impossible, Trivial)
    [] f = "1" -> P(Trivial, Impossible)
    [] f = "pk_k" -> P(SigOf(m.n, w), Push0)
    [] f = "pk_h" -> P(LET s == SigOf(m.n, w) IN IF s.k = "st" THEN [s EXCEPT !.w = Append(s.w, Key(m.n, kf))] ELSE s,
                       Stk(<<E0, Key(m.n, kf)>>))
    [] f \in SortedFrags -> LSD(Unsorted(m), w, ctx, mall, rootsig)
    [] f = "multi" ->
         P(IF Avail(m.ks, w) < m.n THEN Impossible
           ELSE Cand("st", <<E0>> \o FirstK(m.ks, 1, m.n, w), TRUE, -1, -1),
           Stk([q \in 1..(m.n + 1) |-> E0]))
    [] f = "multi_a" ->
         P(IF Avail(m.ks, w) < m.n THEN Impossible
           ELSE Cand("st", LastK(m.ks, Len(m.ks), m.n, w), TRUE, -1, -1),
           Stk([q \in 1..Len(m.ks) |-> E0]))
    [] f = "after" -> P(LockCand(CltvOk(m.n, w.env), rootsig, -1, m.n), Impossible)
    [] f = "older" -> P(LockCand(CsvOk(m.n, w.env), rootsig, m.n, -1), Impossible)
    [] f \in HashFrags -> P(IF <<f, m.n>> \in w.pre THEN Stk(<<Pre(m.n, f)>>) ELSE Unavailable, Stk(<<Z32>>))
    [] f \in {"a", "s", "c", "n"} -> X
    [] f = "d" -> P(OnTop(X.s, E1), Push0)
    [] f = "v" -> P(X.s, Impossible)
    [] f = "j" -> P(X.s, Push0)
    [] f = "and_b" -> P(ConcatRev(X.s, Y.s), ConcatRev(X.d, Y.d))
    [] f = "and_v" -> P(ConcatRev(X.s, Y.s), ConcatRev(X.s, Y.d))
    [] f = "andor" -> P(MinFn(mall, ConcatRev(X.s, Y.s), ConcatRev(X.d, Z.s), ctx), ConcatRev(X.d, Z.d))
    [] f = "or_b" -> P(MinFn(mall, ConcatRev(X.d, Y.s), ConcatRev(X.s, Y.d), ctx), ConcatRev(X.d, Y.d))
    [] f = "or_c" -> P(MinFn(mall, X.s, ConcatRev(X.d, Y.s), ctx), Impossible)
    [] f = "or_d" -> P(MinFn(mall, X.s, ConcatRev(X.d, Y.s), ctx), ConcatRev(X.d, Y.d))
    [] f = "or_i" -> P(MinFn(mall, OnTop(X.s, E1), OnTop(Y.s, E0), ctx), MinFn(mall, OnTop(X.d, E1), OnTop(Y.d, E0), ctx))
    [] f = "thresh" ->
         LET kids == [q \in 1..Len(m.xs) |-> LSD(m.xs[q], w, ctx, mall, rootsig)]
             sats == [q \in 1..Len(kids) |-> kids[q].s]
             dis  == [q \in 1..Len(kids) |-> kids[q].d]
         IN P(IF m.n = Len(kids) THEN FoldRev(sats, 1, Trivial) ELSE ThreshSat(mall, m.n, sats, dis, ctx),
              FoldRev(dis, 1, Trivial))

\* what Miniscript::satisfy / satisfy_malleable answer: the stack, or nothing
\* (root_has_sig is the `s` flag of the root's type)
LSat(m, w, ctx, mall) ==
  LET rootsig == "s" \in TypeOf(m, ctx).fl IN LSD(m, w, ctx, mall, rootsig).s
=============================================================================
