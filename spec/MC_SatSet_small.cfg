CONSTANTS
  Ctx = "segwitv0"
  KeyIds = {1, 2}
  HashLeaves <- c_HashLeaves
  Afters = {100}
  Olders = {10}
  MultiKs <- c_MultiKs
  MaxNodes = 4
  MaxThreshN = 2
  BruteLen = 3
  BruteNodes = 2
INIT Init
NEXT Next
INVARIANT Inv
CHECK_DEADLOCK FALSE
