------------------------------ MODULE TapSpend ------------------------------
(***************************************************************************)
(* L2: the two state machines behind Tr::spend_info()                      *)
(* (src/descriptor/tr/spend_info.rs).                                      *)
(*                                                                         *)
(* Builder (nodes_from_tap_tree): one pass over the leaves in depth-first  *)
(* order.  A vector of nodes in pre-order is grown; every node carries one *)
(* hash, first its own (a placeholder for a parent that is still open),    *)
(* finally its SIBLING's; a stack of open parents (done_left_child, index) *)
(* tells how far a finished right branch can be folded upwards.  The root  *)
(* ends up holding the Merkle root.                                        *)
(*                                                                         *)
(* Iterator (TrSpendInfoIter::next): walks the node vector once, pushing   *)
(* every node's sibling hash on a stack, emitting at a leaf the reversed   *)
(* stack as its Merkle branch, and unwinding the stack past finished right *)
(* branches by a second stack of done_left flags.                          *)
(*                                                                         *)
(* One action per consumed leaf (builder) and per call of next()           *)
(* (iterator).  Hashes are commitment terms of Taproot.tla (canonical      *)
(* sub-trees: the unordered pair of BIP341).  MC_TapSpend checks on every  *)
(* tree shape of the taproot model domain that the root slot holds         *)
(* Commit(tree) and that leaf q is emitted with exactly the path L1        *)
(* assigns to it.                                                          *)
(***************************************************************************)
EXTENDS Taproot, Sequences, Integers, TLC

\* hash of a branch from the hashes of its children (children are canonical already)
HNode(a, c) == IF Cmp(a, c) <= 0 THEN TNode(a, c) ELSE TNode(c, a)
SNode(h, leaf) == [sib |-> h, leaf |-> leaf]      \* leaf = 0 for an internal node, else the leaf's name

(***************************************************************************)
(* builder steps                                                           *)
(***************************************************************************)
RECURSIVE AddParents(_, _, _, _)
\* step 1: open parents until the stack is as deep as the leaf
AddParents(ns, ps, depth, h) ==
  IF Len(ps) >= depth THEN [ns |-> ns, ps |-> ps]
  ELSE AddParents(Append(ns, SNode(h, 0)), Append(ps, <<FALSE, Len(ns) + 1>>), depth, h)

RECURSIVE FoldUp(_, _, _, _)
\* step 3: fold finished right branches upwards
FoldUp(ns, ps, cur, h) ==
  IF ps = <<>> THEN [ns |-> ns, ps |-> ps]
  ELSE LET top == ps[Len(ps)]
           rest == SubSeq(ps, 1, Len(ps) - 1)
           p == top[2]
       IN IF top[1]
          THEN LET lh == ns[p + 1].sib
                   root == HNode(lh, h)
                   ns2 == [ns EXCEPT ![p].sib = root, ![p + 1].sib = h, ![cur].sib = lh]
               IN FoldUp(ns2, rest, p, root)
          ELSE [ns |-> ns, ps |-> Append(rest, <<TRUE, p>>)]

\* one leaf [d, k] consumed; `ok` is the assert_eq!(depth, parent_stack.len()) of the code
PlaceLeaf(ns, ps, lf) ==
  LET h  == TLeaf(lf.k)
      a  == AddParents(ns, ps, lf.d, h)
      n2 == Append(a.ns, SNode(h, lf.k))
      f  == FoldUp(n2, a.ps, Len(n2), h)
  IN [ns |-> f.ns, ps |-> f.ps, ok |-> Len(a.ps) = lf.d]

(***************************************************************************)
(* iterator step: one call of next()                                       *)
(***************************************************************************)
RECURSIVE Unwind(_, _)
Unwind(ms, ds) ==
  IF ds = <<>> THEN [ms |-> ms, ds |-> ds]
  ELSE IF ~ds[Len(ds)] THEN [ms |-> ms, ds |-> Append(SubSeq(ds, 1, Len(ds) - 1), TRUE)]
  ELSE Unwind(SubSeq(ms, 1, Len(ms) - 1), SubSeq(ds, 1, Len(ds) - 1))

RECURSIVE RevSeq(_)
RevSeq(s) == IF s = <<>> THEN <<>> ELSE Append(RevSeq(Tail(s)), Head(s))

RECURSIVE WalkToLeaf(_, _, _, _)
\* advance over internal nodes up to and including the next leaf
WalkToLeaf(ns, i, ms, ds) ==
  LET ms1 == IF i > 1 THEN Append(ms, ns[i].sib) ELSE ms IN
  IF ns[i].leaf # 0
  THEN LET u == Unwind(SubSeq(ms1, 1, Len(ms1) - (IF ms1 = <<>> THEN 0 ELSE 1)), ds)
       IN [i |-> i + 1, ms |-> u.ms, ds |-> u.ds, item |-> [k |-> ns[i].leaf, branch |-> RevSeq(ms1)]]
  ELSE WalkToLeaf(ns, i + 1, ms1, Append(ds, FALSE))

(***************************************************************************)
(* the whole computation as a function of the depth list (for trace        *)
(* validation): the node vector, then every emitted item                   *)
(***************************************************************************)
RECURSIVE BuildAll(_, _, _, _)
BuildAll(dl, q, ns, ps) ==
  IF q > Len(dl) THEN ns
  ELSE LET r == PlaceLeaf(ns, ps, dl[q]) IN BuildAll(dl, q + 1, r.ns, r.ps)
RECURSIVE IterAll(_, _, _, _, _)
IterAll(ns, i, ms, ds, acc) ==
  IF i > Len(ns) THEN acc
  ELSE LET w == WalkToLeaf(ns, i, ms, ds) IN IterAll(ns, w.i, w.ms, w.ds, Append(acc, w.item))
SpendItems(dl) == IterAll(BuildAll(dl, 1, <<>>, <<>>), 1, <<>>, <<>>, <<>>)
=============================================================================
