--------------------------- MODULE Trace_Translate ---------------------------
(***************************************************************************)
(* C20: key translation and key iteration preserve structure.              *)
(*   Subst(ast, f) is the abstract AST with keys renamed; the real         *)
(*   translation must produce exactly it (and the script with the keys     *)
(*   substituted), fail exactly when the mapping fails on a key that       *)
(*   occurs or maps to a key illegal in the context; identity gives an     *)
(*   equal object; translation composes; iterators visit KeysPre(ast).     *)
(***************************************************************************)
EXTENDS Validation, Json, IOUtils, Bags

ASSUME TLCSet(1, ndJsonDeserialize(IOEnv.TRACE))
Rec == TLCGet(1)
NB == 64

VARIABLES b, i
Init == b = 0 /\ i = 0
Next == \/ b = 0 /\ b' \in 1..NB /\ i' = 0
        \/ b > 0 /\ i = 0 /\ b' = b /\ i' \in {j \in 1..Len(Rec) : j % NB = b - 1}

SeqBag(sq) == LET RECURSIVE F(_) F(q) == IF q > Len(sq) THEN EmptyBag ELSE SetToBag({sq[q]}) (+) F(q + 1) IN F(1)
Report(prop, clause, ev, detail) == PrintT("VERDICT " \o ToJson(<<prop, clause, ev.id, 0, detail>>))

\* map is a 0-indexed JSON array over key ids 0..4 -> 1-indexed sequence here
MapKey(map, k) == IF k + 1 <= Len(map) THEN map[k + 1] ELSE k

RECURSIVE Subst(_, _)
Subst(m, map) ==
  IF m.f \in {"pk_k", "pk_h"} THEN [m EXCEPT !.n = MapKey(map, m.n)]
  ELSE IF m.f \in {"multi", "multi_a", "sortedmulti", "sortedmulti_a"} THEN [m EXCEPT !.ks = [q \in 1..Len(m.ks) |-> MapKey(map, m.ks[q])]]
  ELSE [m EXCEPT !.xs = [q \in 1..Len(m.xs) |-> Subst(m.xs[q], map)]]

SubstElem(e, map) == IF e.t \in {"key", "kh"} THEN [e EXCEPT !.k = MapKey(map, e.k)] ELSE e
SubstScript(ops, map) == [q \in 1..Len(ops) |-> [ops[q] EXCEPT !.e = SubstElem(ops[q].e, map)]]

\* "the original script with the mapped keys substituted": position by position, except that a
\* sorted multisig is by definition re-sorted over the mapped keys (substitute in the AST, encode)
RECURSIVE HasSorted(_)
HasSorted(m) == m.f \in SortedFrags \/ \E q \in 1..Len(m.xs) : HasSorted(m.xs[q])
ExpectedScript(ev, m, map) == IF HasSorted(m) THEN Encode(Subst(m, map), ev.ctx) ELSE SubstScript(ev.script, map)

JudgeEvent(ev) ==
  ~ev.have \/
  LET m == ev.ast
      ks == KeysPre(m)
      Kset == Range(ks)
  IN
  /\ (ev.iter_pk = ks \/ Report("C20", "iter_pk_differs_from_keys_in_text_order", ev, <<ev.iter_pk, ks>>))
  /\ (ev.for_each = ks \/ Report("C20", "for_each_key_differs_from_keys_in_text_order", ev, <<ev.for_each, ks>>))
  /\ (ev.for_each_ret \/ Report("C20", "for_each_key_returned_false", ev, ""))
  /\ (ev.for_any_is_2 = (2 \in Kset) \/ Report("C20", "for_any_key_wrong", ev, ""))
  /\ (ev.compose_ok \/ Report("C20", "translation_does_not_compose", ev, ""))
  /\ ((ev.from_names.st = "ok" /\ ev.from_names.eq) \/ Report("C20", "string_keys_to_concrete_keys_differs", ev, ev.from_names.st))
  /\ \A q \in 1..Len(ev.maps) :
       LET t == ev.maps[q]
           failsOnKey == \E k \in Kset : MapKey(t.map, k) = 0
           \* uncompressed keys are illegal in segwit v0 and tapscript
           illegal == (\E k \in Kset : MapKey(t.map, k) < 0) /\ ev.ctx \in {"segwitv0", "tap"}
           unc == \E k \in Kset : MapKey(t.map, k) < 0
       IN
       /\ (t.st # "panic" \/ Report("C11", "translate_panic", ev, t.name))
       /\ (t.st = "panic" \/ unc \/
           /\ ((t.st = "err") = failsOnKey
               \/ Report("C20", IF t.st = "err" THEN "translation_fails_although_mapping_succeeds" ELSE "translation_succeeds_although_mapping_fails", ev, <<t.name, t.msg>>))
           /\ (t.st # "ok" \/
               /\ (t.ast = Subst(m, t.map) \/ Report("C20", "translated_structure_differs", ev, t.name))
               /\ (t.script = ExpectedScript(ev, m, t.map) \/ Report("C20", "translated_script_is_not_substitution", ev, t.name))
               /\ (t.ty_same \/ Report("C20", "translation_changed_type", ev, t.name))
               /\ (t.name # "identity" \/ t.eq_orig \/ Report("C20", "identity_translation_not_equal", ev, ""))))
       \* a mapping to a context-illegal key may only fail where the context forbids the key
       /\ (~unc \/ t.st = "panic" \/ failsOnKey \/ (t.st = "err") = illegal \/ t.st = "ok"
           \/ Report("C20", "translation_to_legal_key_fails", ev, <<t.name, t.msg>>))
  /\ (~ev.desc.have \/
      LET d == ev.desc
          ik == IF d.wrap = "tr" THEN <<20>> ELSE <<>>
      IN
      \* descriptors: exactly the MULTISET of keys of the string form (C20 does not fix an order)
      /\ (SeqBag(d.for_each) = SeqBag(ik \o ks) \/ Report("C20", "descriptor_for_each_key_differs", ev, <<d.for_each, ik \o ks>>))
      /\ (SeqBag(d.iter_pk) = SeqBag(ik \o ks) \/ Report("C20", "descriptor_iter_pk_differs", ev, <<d.iter_pk, ik \o ks>>))
      /\ (d.identity_eq \/ Report("C20", "descriptor_identity_translation_not_equal", ev, ""))
      /\ (d.rename_st = "ok" \/ Report("C20", "descriptor_translation_fails", ev, d.wrap))
      /\ (d.rename_st # "ok" \/
          /\ (SeqBag(d.rename_keys) = SeqBag([q \in 1..Len(ik \o ks) |-> MapKey(ev.maps[2].map, (ik \o ks)[q])])
              \/ Report("C20", "descriptor_translated_keys_differ", ev, d.rename_keys))
          /\ (d.rename_script = ExpectedScript(ev, m, ev.maps[2].map)
              \/ Report("C20", "descriptor_translated_script_is_not_substitution", ev, d.wrap)))
      \* what translate_pk returns is a descriptor of its type (also key-only outputs: pkh, wpkh,
      \* sh-wpkh, tr without a tree): under an injective mapping an Ok result prints and parses back
      \* to an equal object (so an object carrying a key its context forbids is never returned),
      \* and a mapping that succeeds on legal keys is not refused
      /\ \A a \in 1..Len(d.valid) : \A q \in 1..Len(d.valid[a].rows) :
           LET o == d.valid[a]
               r == o.rows[q]
               map == (CHOOSE t \in Range(ev.maps) : t.name = r.name).map
               unc == \E k \in Range(o.keys) : MapKey(map, k) < 0
               forbids == o.wrap \in {"wsh", "shwsh", "wpkh", "shwpkh", "tr", "trkey"}
           IN
           /\ (r.st # "panic" \/ Report("C11", "translate_panic", ev, <<o.wrap, r.name>>))
           /\ (r.st # "ok" \/ r.reparse \in {"equal", "same_output"}
               \/ Report("C20", "translated_descriptor_is_not_a_valid_descriptor", ev, <<o.wrap, r.name, r.reparse>>))
           /\ (r.st # "err" \/ (unc /\ forbids)
               \/ Report("C20", "descriptor_translation_fails", ev, <<o.wrap, r.name>>))
           /\ (r.st # "ok" \/ unc \/ SeqBag(r.keys) = SeqBag([x \in 1..Len(o.keys) |-> MapKey(map, o.keys[x])])
               \/ Report("C20", "descriptor_translated_keys_differ", ev, <<o.wrap, r.name, r.keys>>)))

Inv == i > 0 => JudgeEvent(Rec[i])
Post == PrintT("TRACE_DONE " \o ToJson(<<Len(Rec), TLCGet("stats").distinct>>))
=============================================================================
