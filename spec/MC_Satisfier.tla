----------------------------- MODULE MC_Satisfier -----------------------------
(***************************************************************************)
(* The satisfier ALGORITHM (Satisfier.tla) against the specification       *)
(* (MsSpec!SatSet and the Script VM), without the library: for every       *)
(* well-typed B miniscript up to MaxNodes and every relevant world         *)
(*   Sound      whatever the algorithm returns, in either mode, is a valid *)
(*              satisfaction (member of SatSet) and the locks it reports   *)
(*              are met by the world                                       *)
(*   CompleteM  the malleable mode finds a satisfaction whenever one       *)
(*              exists                                                     *)
(*   CompleteN  for a sane script (s, m, no duplicate key) whose hash      *)
(*              preimages are all known, the non-malleable mode finds one  *)
(*              whenever one exists                                        *)
(* One state per (fragment, world); TLC's workers share the fan-out.       *)
(***************************************************************************)
EXTENDS Satisfier, AstGen, Json, IOUtils

ASSUME TLCSet(1, SetToSeq({x.a : x \in {y \in WTUpTo(MaxNodes) : y.t.b = "B" /\ KeyCanonical(y.a)}}))
Frags == TLCGet(1)
NB == 64

VARIABLES b, i
Init == b = 0 /\ i = 0
Next == \/ b = 0 /\ b' \in 1..NB /\ i' = 0
        \/ b > 0 /\ i = 0 /\ b' = b /\ i' \in {j \in 1..Len(Frags) : j % NB = b - 1}

Report(clause, m, w, detail) == PrintT("VERDICT " \o ToJson(<<"L2", clause, m, <<w.sigs, w.pre, w.env.lock, w.env.seq, w.env.ver>>, detail>>))

NoDup(m) == LET ks == KeysPre(m) IN Cardinality(Range(ks)) = Len(ks)
Sane(m) == Has(TypeOf(m, Ctx), {"s", "m"}) /\ NoDup(m)

JudgeOne(m, w) ==
  \A S \in {SatSet(m, w, Ctx)} : \A n \in {LSat(m, w, Ctx, FALSE)} : \A g \in {LSat(m, w, Ctx, TRUE)} :
  /\ (n.k # "st" \/ n.w \in S \/ Report("nonmall_result_not_a_satisfaction", m, w, n.w))
  /\ (g.k # "st" \/ g.w \in S \/ Report("mall_result_not_a_satisfaction", m, w, g.w))
  /\ (S = {} \/ g.k = "st" \/ Report("mall_misses_a_satisfaction", m, w, g.k))
  /\ (S = {} \/ ~Sane(m) \/ ~(HashesOf(m) \subseteq w.pre) \/ n.k = "st" \/ Report("nonmall_misses_on_sane_script", m, w, n.k))
  /\ (n.k # "st" \/ ((n.rel = -1 \/ CsvOk(n.rel, w.env)) /\ (n.abs = -1 \/ CltvOk(n.abs, w.env)))
      \/ Report("reported_lock_not_met", m, w, <<n.rel, n.abs>>))

Inv == i > 0 => \A w \in WorldsOf(Frags[i]) : JudgeOne(Frags[i], w)
Post == PrintT("MC_DONE " \o ToJson(<<Len(Frags), TLCGet("stats").distinct>>))
=============================================================================
