------------------------------- MODULE Trace_Eq -------------------------------
(***************************************************************************)
(* C19: one event per row of the pair matrix.  Row r carries, for every    *)
(* item j, what the real library said: eq, cmp (-1/0/1), hash equal,       *)
(* string equal; plus clone==self.  base[] gives the abstract identity.    *)
(*   eq <=> same base <=> equal strings;  cmp = 0 <=> eq;  antisymmetry    *)
(*   (via the transposed entry carried in the row);  eq => hash equal;     *)
(*   ordering is a strict total order on distinct bases: the number of     *)
(*   items strictly below each representative is a permutation (a          *)
(*   tournament is transitive iff its scores are all different).           *)
(***************************************************************************)
EXTENDS Integers, Sequences, FiniteSets, TLC, Json, IOUtils, SequencesExt

ASSUME TLCSet(1, ndJsonDeserialize(IOEnv.TRACE))
Rec == TLCGet(1)
NB == 64

VARIABLES b, i
Init == b = 0 /\ i = 0
Next == \/ b = 0 /\ b' \in 1..NB /\ i' = 0
        \/ b > 0 /\ i = 0 /\ b' = b /\ i' \in {j \in 1..Len(Rec) : j % NB = b - 1}

Report(clause, ev, detail) == PrintT("VERDICT " \o ToJson(<<"C19", clause, ev.id, 0, detail>>))

JudgeRow(ev) ==
  LET n == Len(ev.base)
      r == ev.row
      bad(P(_)) == {j \in 1..n : P(j)}
      rep(B, clause) == B = {} \/ Report(clause, ev, [row |-> r, n |-> Cardinality(B), first |-> CHOOSE j \in B : \A q \in B : j <= q])
  IN
  \* an item the parser refuses is a defect of the generator, not of Eq / Ord / Hash
  /\ (ev.parsed \/ PrintT("VERDICT " \o ToJson(<<"TOOL", "item_rejected_by_parser", ev.id, 0, ev.abs>>)))
  /\ (~ev.parsed \/
      /\ rep(bad(LAMBDA j : ev.ok[j] /\ ev.eq[j] /\ ev.base[j] # ev.base[r]), "eq_but_structurally_different")
      /\ rep(bad(LAMBDA j : ev.ok[j] /\ ~ev.eq[j] /\ ev.base[j] = ev.base[r]), "structurally_equal_but_neq")
      /\ rep(bad(LAMBDA j : ev.ok[j] /\ (ev.cmp[j] = 0) # ev.eq[j]), "cmp_equal_disagrees_with_eq")
      /\ rep(bad(LAMBDA j : ev.ok[j] /\ ev.cmp[j] # 0 - ev.cmpT[j]), "cmp_not_antisymmetric")
      /\ rep(bad(LAMBDA j : ev.ok[j] /\ ev.eq[j] /\ ~ev.hash[j]), "eq_but_hash_differs")
      /\ rep(bad(LAMBDA j : ev.ok[j] /\ ev.streq[j] # (ev.base[j] = ev.base[r])), "string_equality_disagrees")
      /\ (ev.clone_eq \/ Report("clone_not_equal", ev, r))
      /\ (ev.below = Cardinality({j \in 1..n : ev.ok[j] /\ ev.cmp[j] = 1 /\ ev.style[j] = "x"})
          \/ Report("harness_count_mismatch", ev, r)))

JudgeSummary(ev) ==
  \* ev.scores[q] = number of representatives (style "x") strictly below representative q
  LET n == Len(ev.scores)
      dup == {q \in 1..n : \E p \in 1..n : p < q /\ ev.scores[p] = ev.scores[q]}
  IN dup = {} \/ Report("order_not_transitive", ev, [n |-> Cardinality(dup), first |-> CHOOSE q \in dup : \A p \in dup : q <= p])

Inv == i > 0 => (IF Rec[i].kind = "row" THEN JudgeRow(Rec[i]) ELSE JudgeSummary(Rec[i]))
Post == PrintT("TRACE_DONE " \o ToJson(<<Len(Rec), TLCGet("stats").distinct>>))
=============================================================================
