----------------------------- MODULE MC_Decoder -----------------------------
(* the decoder automaton against Encode, without the library *)
EXTENDS Decoder, AstGen, Json, IOUtils

ASSUME TLCSet(1, SetToSeq({x.a : x \in {y \in WTUpTo(MaxNodes) : y.t.b # "W" /\ TypeOfDev(y.a, Ctx).ok}}))
Frags == TLCGet(1)
NB == 64
VARIABLES b, i
Init == b = 0 /\ i = 0
Next == \/ b = 0 /\ b' \in 1..NB /\ i' = 0
        \/ b > 0 /\ i = 0 /\ b' = b /\ i' \in {j \in 1..Len(Frags) : j % NB = b - 1}
Report(clause, m, detail) == PrintT("VERDICT " \o ToJson(<<"L2", clause, m, detail>>))

\* instruction-level mutants of a script: delete, duplicate, swap neighbours
Mutants(ops) ==
  {SubSeq(ops, 1, q - 1) \o SubSeq(ops, q + 1, Len(ops)) : q \in 1..Len(ops)}
  \cup {SubSeq(ops, 1, q) \o SubSeq(ops, q, Len(ops)) : q \in 1..Len(ops)}
  \cup {[ops EXCEPT ![q] = ops[q + 1], ![q + 1] = ops[q]] : q \in 1..(Len(ops) - 1)}
  \cup {SubSeq(ops, 1, q) \o <<Op("VERIFY")>> \o SubSeq(ops, q + 1, Len(ops)) : q \in 1..Len(ops)}

Inv == i > 0 =>
  LET m == Frags[i]
      ops == Encode(m, Ctx)
      d == DecodeOps(ops, Ctx)
      canon == IF m.f \in SortedFrags THEN m ELSE m
  IN
  /\ (d.ok \/ Report("own_encoding_rejected", m, d.err))
  /\ (~d.ok \/ Encode(d.ast, Ctx) = ops \/ Report("decoded_ast_encodes_differently", m, d.ast))
  /\ \A mu \in Mutants(ops) \ {ops} :
       LET dm == DecodeOps(mu, Ctx) IN
       ~dm.ok \/ Encode(dm.ast, Ctx) = mu \/ Report("accepted_mutant_is_not_canonical", m, <<mu, dm.ast>>)
Post == PrintT("MC_DONE " \o ToJson(<<Len(Frags), TLCGet("stats").distinct>>))
=============================================================================
