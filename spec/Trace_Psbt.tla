------------------------------ MODULE Trace_Psbt ------------------------------
(***************************************************************************)
(* C14 trace validation (chain shape): the projected state of the REAL     *)
(* PSBT after every operation must be explained by the corresponding       *)
(* action of Psbt.tla from the previous projected state.  Every clause of  *)
(* C14 is evaluated at every step; a failed clause is reported and the     *)
(* walk continues, so the whole trace is always examined.                  *)
(*   memo remembers the finalisation outcome per (input descriptor, set    *)
(*   state, mode) across histories: order independence.                    *)
(***************************************************************************)
EXTENDS Verify, Worlds, Json, IOUtils, FiniteSetsExt

ASSUME TLCSet(1, ndJsonDeserialize(IOEnv.TRACE))
Rec == TLCGet(1)

VARIABLES l, cur, descs, memo
\* cur: the previous projected state (sequence of per-input records); descs: descriptors of the
\* current PSBT; memo: set of [d, upd, sigs, pre, mall, out]

Report(prop, clause, ev, j, detail) == PrintT("VERDICT " \o ToJson(<<prop, clause, ev.id, j, detail>>))

Init == l = 1 /\ cur = <<>> /\ descs = <<>> /\ memo = {}

EnvOfRec(ev, rules) == [rules |-> rules, std |-> TRUE, lock |-> ev.env.lock, seq |-> ev.env.seq, ver |-> ev.env.ver]

SetState(s) == [upd |-> s.upd, sigs |-> Range(s.sigs), pre |-> Range(s.pre)]
Untouched(a, c) == SetState(a) = SetState(c) /\ a.final = c.final /\ a.raw = c.raw
FinOK(ev, s) == VerifyInput(s.fin, EnvOfRec(ev, s.fin.rules))
WorldOfS(ev, s, ctx) == [sigs |-> Range(s.sigs), pre |-> Range(s.pre), env |-> EnvOfRec(ev, RulesOf(ctx))]

\* outputs whose spending script is determined by the utxo and the signing key alone: nothing has
\* to be recorded by update for the finalizer to work
NeedsUpd(d) == d.wrap \notin {"pkh", "wpkh"}

\* judgement of one finalisation attempt on input i (prev p, now n)
JudgeFin(ev, i, p, n, mall) ==
  LET d == descs[i] IN
  IF p.final
  THEN (Untouched(p, n) \/ Report("C14", "final_input_altered", ev, i, ""))
  ELSE IF n.final
  THEN /\ (FinOK(ev, n) \/ Report("C14", "finalized_with_invalid_witness", ev, i, VerifyWhy(n.fin, EnvOfRec(ev, n.fin.rules))))
       /\ ((n.sigs = <<>> /\ n.pre = <<>>) \/ Report("C14", "signer_fields_survive_finalization", ev, i, ""))
       /\ (p.upd \/ ~NeedsUpd(d) \/ Report("INFO", "finalized_without_update", ev, i, ""))
  ELSE /\ (Untouched(p, n) \/ Report("C14", "failed_finalize_modified_input", ev, i, ""))
       \* completeness is C02's question: a recorded asset set that admits a witness
       /\ (~(mall /\ (p.upd \/ ~NeedsUpd(d)) /\ SatSet(d.ast, WorldOfS(ev, p, d.ctx), d.ctx) # {})
           \/ Report("C02", "missed_mall_psbt", ev, i, ev.op))

\* order independence: same descriptor + same set state + same mode => same outcome
\* (the transaction environment is part of the key: histories are replayed under several)
MemoKey(ev, i, p, mall) == [d |-> descs[i], st |-> SetState(p), mall |-> mall, env |-> ev.env]
Outcome(n) == [f |-> n.final, w |-> IF n.final THEN n.fin.stack ELSE <<>>]
MemoOK(ev, i, p, n, mall) ==
  p.final \/
  LET key == MemoKey(ev, i, p, mall)
      out == Outcome(n)
      old == {m \in memo : m.key = key}
  IN \A m \in old : m.out = out \/ Report("C14", "outcome_depends_on_order", ev, i, [now |-> out, before |-> m.out])
MemoAdd(ev, i, p, n, mall) ==
  IF p.final THEN {} ELSE {[key |-> MemoKey(ev, i, p, mall), out |-> Outcome(n)]}

PStep(ev) ==
  LET st == ev.state
      N  == Len(st)
      others(i) == \A j \in 1..N : j = i \/ Untouched(cur[j], st[j]) \/ Report("C14", "operation_touched_other_input", ev, j, ev.op)
  IN
  /\ (ev.res # "PANIC" \/ Report("C11", "psbt_panic", ev, 0, ev.op))
  /\ CASE ev.op = "reset" ->
            \* update_output_with_descriptor: records scripts / taproot data that commit to the output it
            \* is applied to, and refuses a descriptor that pays somewhere else without touching the map
            \A q \in 1..Len(ev.outs) :
              LET o == ev.outs[q] IN
              /\ (o.st # "panic" \/ Report("C11", "psbt_panic", ev, q, "update_output_with_descriptor"))
              /\ (o.st # "err" \/ Report("C14", "update_output_rejects_own_descriptor", ev, q, ""))
              /\ (o.st # "ok" \/ o.commit_ok \/ Report("C14", "update_output_inconsistent_with_output", ev, q, ""))
              /\ \A z \in 1..Len(o.others) :
                   /\ (~o.others[z].accepted \/ Report("C14", "update_output_accepts_foreign_descriptor", ev, q, z))
                   /\ (o.others[z].accepted \/ o.others[z].untouched \/ Report("C14", "failed_update_output_modified_map", ev, q, z))
       [] ev.op = "update" ->
            /\ others(ev.i)
            \* the descriptor offered is the one the input's utxo pays to: update must accept it
            /\ (ev.res = "ok" \/ Report("C14", "update_rejects_own_descriptor", ev, ev.i, ev.res))
            /\ (ev.res # "ok" \/ cur[ev.i].final \/
                /\ (st[ev.i].upd \/ ~NeedsUpd(descs[ev.i]) \/ Report("C14", "update_recorded_nothing", ev, ev.i, ""))
                /\ (st[ev.i].upd_commit_ok \/ Report("C14", "update_scripts_inconsistent_with_output", ev, ev.i, ""))
                /\ (st[ev.i].upd_origins_ok \/ Report("C14", "update_key_origins_missing", ev, ev.i, ""))
                /\ (Range(st[ev.i].sigs) = Range(cur[ev.i].sigs) \/ Report("C14", "update_changed_signatures", ev, ev.i, "")))
       [] ev.op \in {"addsig", "addpre"} -> others(ev.i)
       [] ev.op = "finalize" ->
            /\ \A i \in 1..N : JudgeFin(ev, i, cur[i], st[i], ev.mall) /\ MemoOK(ev, i, cur[i], st[i], ev.mall)
            /\ ((ev.res = "ok") = (\A i \in 1..N : st[i].final)
                \/ Report("C14", "finalize_result_disagrees_with_state", ev, 0, ev.res))
       [] ev.op = "finalize_inp" ->
            /\ others(ev.i)
            /\ JudgeFin(ev, ev.i, cur[ev.i], st[ev.i], ev.mall) /\ MemoOK(ev, ev.i, cur[ev.i], st[ev.i], ev.mall)
            /\ ((ev.res = "ok") = st[ev.i].final \/ Report("C14", "finalize_inp_result_disagrees_with_state", ev, ev.i, ev.res))
       [] ev.op = "extract" ->
            /\ (\A j \in 1..N : Untouched(cur[j], st[j]) \/ Report("C14", "extract_modified_psbt", ev, j, ""))
            /\ ((ev.res = "ok") = (\A j \in 1..N : cur[j].final) \/ Report("C14", "extract_result_disagrees_with_finality", ev, 0, ev.res))
            /\ (ev.res # "ok" \/
                \A j \in 1..Len(ev.extract) :
                  /\ (VerifyInput(ev.extract[j], EnvOfRec(ev, ev.extract[j].rules))
                      \/ Report("C14", "extracted_input_invalid", ev, j, VerifyWhy(ev.extract[j], EnvOfRec(ev, ev.extract[j].rules))))
                  /\ (ev.extract[j].stack = cur[j].fin.stack \/ Report("C14", "extracted_input_differs_from_final", ev, j, "")))
       [] OTHER -> Report("INFO", "unknown_op", ev, 0, ev.op)

Next ==
  /\ l <= Len(Rec)
  /\ LET ev == Rec[l] IN
     \* "= TRUE" makes TLC evaluate the judgement as an expression (short-circuit \/),
     \* not as an action whose disjuncts are all explored
     /\ PStep(ev) = TRUE
     /\ cur' = ev.state
     /\ descs' = IF ev.op = "reset" THEN ev.inputs ELSE descs
     /\ memo' = IF ev.op = "finalize" THEN memo \cup UNION {MemoAdd(ev, i, cur[i], ev.state[i], ev.mall) : i \in 1..Len(ev.state)}
                ELSE IF ev.op = "finalize_inp" THEN memo \cup MemoAdd(ev, ev.i, cur[ev.i], ev.state[ev.i], ev.mall)
                ELSE memo
  /\ l' = l + 1

\* memo grows; hide it and cur from the fingerprint: the walk is a straight line indexed by l
View == l

Post == PrintT("TRACE_DONE " \o ToJson(<<Len(Rec), TLCGet("stats").diameter - 1>>))
=============================================================================
