------------------------------- MODULE Lexer -------------------------------
(***************************************************************************)
(* L2: the script lexer (src/miniscript/lex.rs), the first stage of the    *)
(* decoder: one pass over the instructions of a script (as split by        *)
(* rust-bitcoin with the minimal-push rule), one or two tokens per         *)
(* instruction:                                                            *)
(*  - the fused opcodes EQUALVERIFY, NUMEQUALVERIFY, CHECKSIGVERIFY,       *)
(*    CHECKMULTISIGVERIFY become the plain token followed by Verify;       *)
(*  - a stand-alone VERIFY directly after Equal / NumEqual / CheckSig /    *)
(*    CheckMultiSig is refused (NonMinimalVerify), so that the pair        *)
(*    <X, Verify> in the token stream always stands for the fused opcode;  *)
(*  - pushes of 20 / 32 / 33 / 65 bytes are Hash20 / Bytes32 / Bytes33 /   *)
(*    Bytes65, any other push must be a minimally encoded non-negative     *)
(*    number; OP_0 and OP_1..OP_16 are numbers;                            *)
(*  - every other opcode is refused; the first error ends the pass.        *)
(* Instructions are the abstract names of the crash generator's script     *)
(* alphabet (Gen_Crash!Toks).                                              *)
(*                                                                         *)
(* MC_Lexer checks that lexing loses nothing: the accepted token stream    *)
(* determines the instruction sequence (Unlex(Lex(s)) = s).  Trace_Crash   *)
(* compares the model with the real lexer on every enumerated sequence.    *)
(***************************************************************************)
EXTENDS Sequences, Integers, TLC

\* name tables as sets of pairs (several instruction names are TLA+ keywords)
FusedT == {<<"EQUALVERIFY", "Equal">>, <<"NUMEQUALVERIFY", "NumEqual">>, <<"CHECKSIGVERIFY", "CheckSig">>, <<"CHECKMULTISIGVERIFY", "CheckMultiSig">>}
PlainT == {<<"IF", "If">>, <<"NOTIF", "NotIf">>, <<"ELSE", "Else">>, <<"ENDIF", "EndIf">>, <<"TOALT", "ToAltStack">>, <<"FROMALT", "FromAltStack">>,
           <<"IFDUP", "IfDup">>, <<"DUP", "Dup">>, <<"SWAP", "Swap">>, <<"SIZE", "Size">>, <<"EQUAL", "Equal">>, <<"BOOLAND", "BoolAnd">>,
           <<"BOOLOR", "BoolOr">>, <<"ADD", "Add">>, <<"NUMEQUAL", "NumEqual">>, <<"CHECKSIG", "CheckSig">>, <<"CHECKSIGADD", "CheckSigAdd">>,
           <<"CHECKMULTISIG", "CheckMultiSig">>, <<"CLTV", "CheckLockTimeVerify">>, <<"CSV", "CheckSequenceVerify">>, <<"SHA256", "Sha256">>,
           <<"HASH160", "Hash160">>, <<"DROP", "Drop">>, <<"RIPEMD160", "Ripemd160">>, <<"HASH256", "Hash256">>, <<"0NOTEQUAL", "ZeroNotEqual">>}
PushT == {<<"K", "Bytes33">>, <<"X", "Bytes32">>, <<"H20", "Hash20">>, <<"K65", "Bytes65">>}
NumT == {<<"0", "Num(0)">>, <<"1", "Num(1)">>, <<"2", "Num(2)">>, <<"17", "Num(17)">>}
Dom(T) == {p[1] : p \in T}
Img(T) == {p[2] : p \in T}
Fwd(T, a) == (CHOOSE p \in T : p[1] = a)[2]
Bwd(T, c) == (CHOOSE p \in T : p[2] = c)[1]
NoVerifyAfter == {"Equal", "NumEqual", "CheckSig", "CheckMultiSig"}

\* tokens (or an error) for one instruction, given the tokens so far
LexOne(t, sofar) ==
  IF t \in Dom(FusedT) THEN [toks |-> <<Fwd(FusedT, t), "Verify">>, err |-> ""]
  ELSE IF t \in Dom(PlainT) THEN [toks |-> <<Fwd(PlainT, t)>>, err |-> ""]
  ELSE IF t \in Dom(PushT) THEN [toks |-> <<Fwd(PushT, t)>>, err |-> ""]
  ELSE IF t \in Dom(NumT) THEN [toks |-> <<Fwd(NumT, t)>>, err |-> ""]
  ELSE IF t = "VERIFY"
       THEN IF sofar # <<>> /\ sofar[Len(sofar)] \in NoVerifyAfter
            THEN [toks |-> <<>>, err |-> "NonMinimalVerify"]
            ELSE [toks |-> <<"Verify">>, err |-> ""]
  ELSE IF t = "NEG" THEN [toks |-> <<>>, err |-> "NegativeInt"]           \* 0x82 = -2
  ELSE IF t = "NONMIN" THEN [toks |-> <<>>, err |-> "InvalidInt"]         \* 0x1100: padded number
  ELSE IF t \in {"PUSHDATA1_TRUNC", "PUSH5"} THEN [toks |-> <<>>, err |-> "Script"]  \* truncated / non-minimal push
  ELSE [toks |-> <<>>, err |-> "InvalidOpcode"]

RECURSIVE LexFrom(_, _, _)
LexFrom(s, q, sofar) ==
  IF q > Len(s) THEN [toks |-> sofar, err |-> ""]
  ELSE LET r == LexOne(s[q], sofar) IN
       IF r.err # "" THEN [toks |-> sofar, err |-> r.err] ELSE LexFrom(s, q + 1, sofar \o r.toks)
Lex(s) == LexFrom(s, 1, <<>>)

(***************************************************************************)
(* the inverse on accepted streams                                         *)
(***************************************************************************)
RECURSIVE Unlex(_, _)
Unlex(toks, q) ==
  IF q > Len(toks) THEN <<>>
  ELSE LET t == toks[q] IN
       IF t \in Img(FusedT) /\ q < Len(toks) /\ toks[q + 1] = "Verify"
       THEN <<Bwd(FusedT, t)>> \o Unlex(toks, q + 2)
       ELSE <<(IF t \in Img(PlainT) THEN Bwd(PlainT, t)
               ELSE IF t \in Img(PushT) THEN Bwd(PushT, t)
               ELSE IF t \in Img(NumT) THEN Bwd(NumT, t)
               ELSE IF t = "Verify" THEN "VERIFY"
               ELSE "?")>> \o Unlex(toks, q + 1)
=============================================================================
