CONSTANTS
  MaxLeaves = 6
  ChainDepths = {1, 2, 3, 64, 126, 127, 128, 129}
  TreeSet <- MCTrees
INIT TInit
NEXT TNext
INVARIANTS BuilderCorrect BuilderInv
CHECK_DEADLOCK FALSE
