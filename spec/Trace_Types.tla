----------------------------- MODULE Trace_Types -----------------------------
(***************************************************************************)
(* C05 on the complete finite domain: every row of every type rule as the  *)
(* real library computes it, compared cell by cell with the specification  *)
(* tables (SpecUnType / SpecBinType / SpecAndOrType / SpecThreshType).     *)
(* Verdicts are raised only where all child types satisfy the              *)
(* specification's sanity conditions (types that can actually occur);      *)
(* disagreements on impossible child types are counted as drift.           *)
(***************************************************************************)
EXTENDS Types, Json, IOUtils, SequencesExt

ASSUME TLCSet(1, ndJsonDeserialize(IOEnv.TRACE))
Rec == TLCGet(1)
NB == 64

VARIABLES b, i
Init == b = 0 /\ i = 0
Next == \/ b = 0 /\ b' \in 1..NB /\ i' = 0
        \/ b > 0 /\ i = 0 /\ b' = b /\ i' \in {j \in 1..Len(Rec) : j % NB = b - 1}

\* classify one cell: lib result index r against spec result S
Cell(r, S) ==
  IF r = -2 THEN "panic"
  ELSE IF r = -1 THEN (IF S.ok THEN "rejects_spec_accepts" ELSE "")
  ELSE IF ~S.ok THEN "accepts_spec_rejects"
  ELSE LET t == TyOfIdx(r) IN
       IF t.b # S.b THEN "base"
       ELSE IF ~(t.fl \subseteq S.fl) THEN "stronger_than_spec"
       ELSE IF t.fl # S.fl THEN "weaker_than_spec"
       ELSE ""

Report(prop, clause, ev, detail) == PrintT("VERDICT " \o ToJson(<<prop, clause, ev.id, 0, detail>>))

Clauses == {"panic", "rejects_spec_accepts", "accepts_spec_rejects", "base", "stronger_than_spec", "weaker_than_spec"}

\* judge a row whose last child ranges over indices ys (sequence), with spec function F(yType)
JudgeRow(ev, fixedSane, ys, F(_)) ==
  LET ReachSet == Range(ev.reach)
      cells == [q \in 1..Len(ys) |->
                  LET y == TyOfIdx(ys[q]) IN
                  [c |-> Cell(ev.res[q], F(y)), sane |-> fixedSane /\ ys[q] \in ReachSet, y |-> ys[q]]]
      bad(cl, sn) == {q \in 1..Len(ys) : cells[q].c = cl /\ cells[q].sane = sn}
  IN
  /\ \A cl \in Clauses :
        LET B == bad(cl, TRUE) IN
        B = {} \/ Report(IF cl = "panic" THEN "C11" ELSE "C05", cl, ev,
                         [rule |-> ev.job, n |-> Cardinality(B), first |-> cells[CHOOSE q \in B : \A p \in B : q <= p].y])
  /\ LET D == UNION {bad(cl, FALSE) : cl \in Clauses} IN
     D = {} \/ PrintT("DRIFT " \o ToJson(<<ev.id, Cardinality(D)>>))
  /\ PrintT("ROW " \o ToJson(<<ev.id, Len(ys), Cardinality({q \in 1..Len(ys) : cells[q].sane})>>))

AllIdx == [q \in 1..NTypes |-> q - 1]

LeafNames == <<"1", "0", "pk_k", "pk_h", "multi", "multi_a", "sha256", "older", "sortedmulti", "sortedmulti_a">>
\* the sorted variants are typed like the fragments they denote
LeafSpecName(f) == IF f = "sortedmulti" THEN "multi" ELSE IF f = "sortedmulti_a" THEN "multi_a" ELSE f

JudgeEvent(ev) ==
  CASE ev.job = "leaf" ->
         \A q \in 1..Len(LeafNames) :
            LET S == SpecLeafType(LeafSpecName(LeafNames[q]), "dev") c == Cell(ev.res[q], S) IN
            c = "" \/ Report("C05", c, ev, [rule |-> LeafNames[q], n |-> 1, first |-> ev.res[q]])
    [] ev.job = "un" -> JudgeRow(ev, TRUE, AllIdx, LAMBDA y : SpecUn(ev.rule, y))
    [] ev.job = "bin" ->
         LET x == TyOfIdx(ev.x) IN JudgeRow(ev, ev.x \in Range(ev.reach), AllIdx, LAMBDA y : SpecBinType(ev.rule, x, y, "dev"))
    [] ev.job = "andor" ->
         LET x == TyOfIdx(ev.x) y == TyOfIdx(ev.y) IN
         JudgeRow(ev, ev.x \in Range(ev.reach) /\ ev.y \in Range(ev.reach), AllIdx, LAMBDA z : SpecAndOrType(x, y, z, "dev"))
    [] ev.job = "thresh" ->
         LET kids == [q \in 1..Len(ev.kids) |-> TyOfIdx(ev.kids[q])] IN
         JudgeRow(ev, \A q \in 1..Len(ev.kids) : ev.kids[q] \in Range(ev.reach), AllIdx,
                  LAMBDA z : SpecThreshType(ev.k, Append(kids, z)))

Inv == i > 0 => JudgeEvent(Rec[i])
Post == PrintT("TRACE_DONE " \o ToJson(<<Len(Rec), TLCGet("stats").distinct>>))
=============================================================================
