------------------------------ MODULE Gen_Pairs2 ------------------------------
(***************************************************************************)
(* C19 beyond miniscripts: item lists of concrete policies, semantic       *)
(* policies and descriptors whose full pair matrix (==, cmp, hash, string, *)
(* clone) the harness observes.  Every list consists of pairwise           *)
(* structurally DIFFERENT abstract objects (index = identity), chosen as   *)
(* near misses: same shape differing only in a threshold k, in the number  *)
(* of children (prefix related), in child order, in one leaf, in the odds  *)
(* of an or, in the output wrapper, in the internal key, in the shape of   *)
(* the taproot tree over the same leaves.                                  *)
(***************************************************************************)
EXTENDS MsSpec, Json, IOUtils, SequencesExt

\* ---- policies: records [p, n, xs, w] (w = odds of an "or") ----
L(p, n) == [p |-> p, n |-> n, xs |-> <<>>, w |-> <<>>]
And(xs) == [p |-> "and", n |-> 0, xs |-> xs, w |-> <<>>]
Or(xs, w) == [p |-> "or", n |-> 0, xs |-> xs, w |-> w]
Thr(k, xs) == [p |-> "thresh", n |-> k, xs |-> xs, w |-> <<>>]
K(q) == L("key", q)

Leaves == {K(1), K(2), K(3), L("after", 9), L("after", 10), L("after", 100), L("after", 500000000), L("after", 500000001),
           L("older", 9), L("older", 10), L("older", 65546), L("older", 4194314), L("older", 4259850),
           L("sha256", 1), L("sha256", 2), L("hash256", 1), L("ripemd160", 1), L("hash160", 1)}

ThreshFam ==
  {Thr(k, <<K(1), K(2), K(3)>>) : k \in 1..3} \cup {Thr(k, <<K(1), K(2)>>) : k \in 1..2}
  \cup {Thr(k, <<K(1), K(2), K(3), K(4)>>) : k \in 1..4}
  \cup {Thr(k, <<K(2), K(1), K(3)>>) : k \in 1..3} \cup {Thr(k, <<K(1), K(3), K(2)>>) : k \in 1..3}
  \cup {Thr(2, <<K(1), K(2), L("older", n)>>) : n \in {9, 10, 65546}}
  \cup {Thr(2, <<Thr(1, <<K(1), K(2)>>), K(3), K(4)>>), Thr(2, <<K(3), Thr(1, <<K(1), K(2)>>), K(4)>>),
        Thr(2, <<Thr(2, <<K(1), K(2)>>), K(3), K(4)>>)}

ConcOnly ==
  {And(<<K(1), K(2)>>), And(<<K(2), K(1)>>), And(<<K(1), K(3)>>), And(<<K(1), L("older", 10)>>), And(<<K(1), L("older", 65546)>>)}
  \cup {Or(<<K(1), K(2)>>, w) : w \in {<<1, 1>>, <<9, 1>>, <<1, 9>>, <<2, 1>>}}
  \cup {Or(<<K(2), K(1)>>, <<1, 1>>), Or(<<K(1), K(3)>>, <<1, 1>>)}
  \cup {And(<<Or(<<K(1), K(2)>>, w), K(3)>>) : w \in {<<1, 1>>, <<9, 1>>}}
  \cup {Or(<<And(<<K(1), K(2)>>), K(3)>>, <<1, 1>>), Or(<<K(3), And(<<K(1), K(2)>>)>>, <<1, 1>>)}

ConcItems == SetToSeq(Leaves \cup ThreshFam \cup ConcOnly)
\* semantic policies have only leaves and thresholds (and / or are thresholds there)
SemItems == SetToSeq(Leaves \cup ThreshFam)

\* ---- descriptors: [wrap, ik, asts, dl] ----
Pk(k) == Un("c", Leaf("pk_k", k))
Pkh(k) == Un("c", Leaf("pk_h", k))
AndV(x, y) == Bin("and_v", Un("v", x), y)
MsPool == {Pk(1), Pk(2), Pkh(1), AndV(Pk(1), Pk(2)), AndV(Pk(2), Pk(1)), AndV(Pk(1), Pk(3)),
           AndV(Pk(1), Leaf("older", 10)), AndV(Pk(1), Leaf("older", 65546)), AndV(Pk(1), Leaf("after", 10)),
           Bin("or_d", Pk(1), Pk(2)), Bin("or_d", Pk(2), Pk(1)),
           Thresh(1, <<Pk(1), Un("s", Pk(2)), Un("s", Pk(3))>>), Thresh(2, <<Pk(1), Un("s", Pk(2)), Un("s", Pk(3))>>),
           Thresh(2, <<Pk(1), Un("s", Pk(2))>>)}
MultiPool == {Multi(k, ks) : k \in 1..2, ks \in {<<1, 2>>, <<2, 1>>, <<1, 2, 3>>}}
D(w, ik, asts, dl) == [wrap |-> w, ik |-> ik, asts |-> asts, dl |-> dl]
KeyOnly == {D(w, k, <<>>, <<>>) : w \in {"pkh", "wpkh", "shwpkh", "tr_key", "bare_pk"}, k \in 1..2}
Scripted == {D(w, 0, <<m>>, <<>>) : w \in {"sh", "wsh", "shwsh"}, m \in MsPool \cup MultiPool}
            \cup {D(w, 0, <<Ast(s, m.n, m.ks, <<>>)>>, <<>>) : w \in {"sh", "wsh", "shwsh"}, s \in {"sortedmulti"}, m \in MultiPool}
            \cup {D("bare", 0, <<m>>, <<>>) : m \in {Multi(1, <<1, 2>>), Multi(2, <<1, 2>>), Multi(1, <<2, 1>>)}}
\* taproot: internal key x tree shape over the leaves A = pk(3), B = pk(4), C = and_v(v:pk(3),older(10)), E = pk(5)
TA == Pk(3)  TB == Pk(4)  TC == AndV(Pk(3), Leaf("older", 10))  TE == Pk(5)
Trees == {<<<<TA>>, <<0>>>>, <<<<TB>>, <<0>>>>, <<<<TC>>, <<0>>>>,
          <<<<TA, TB>>, <<1, 1>>>>, <<<<TB, TA>>, <<1, 1>>>>, <<<<TA, TC>>, <<1, 1>>>>,
          <<<<TA, TB, TE>>, <<1, 2, 2>>>>, <<<<TA, TB, TE>>, <<2, 2, 1>>>>, <<<<TA, TE, TB>>, <<1, 2, 2>>>>,
          <<<<TA, TB, TE, TC>>, <<2, 2, 2, 2>>>>, <<<<TA, TB, TE, TC>>, <<1, 2, 3, 3>>>>, <<<<TA, TB, TE, TC>>, <<3, 3, 2, 1>>>>,
          <<<<TA, TB, TE, TC>>, <<1, 3, 3, 2>>>>}
Taproot == {D("tr", k, t[1], t[2]) : k \in 1..2, t \in Trees}
DescItems == SetToSeq(KeyOnly \cup Scripted \cup Taproot)

Items(S, f) == [q \in 1..Len(S) |-> [base |-> q, style |-> "x"] @@ [x \in {f} |-> S[q]]]

Cases == << [id |-> 1, ctx |-> "concrete", kind |-> "conc", items |-> Items(ConcItems, "pol")],
            [id |-> 2, ctx |-> "semantic", kind |-> "sem", items |-> Items(SemItems, "pol")],
            [id |-> 3, ctx |-> "descriptor", kind |-> "desc", items |-> Items(DescItems, "d")] >>

ASSUME ndJsonSerialize(IOEnv.OUT, Cases)
ASSUME PrintT("GEN " \o ToJson(<<"items", Len(ConcItems), Len(SemItems), Len(DescItems)>>))
=============================================================================
