----------------------------- MODULE PolicyAtoms -----------------------------
(***************************************************************************)
(* L1: policies as boolean functions of independent atoms (every distinct  *)
(* leaf is an atom), for the transformations of C18; concrete policies     *)
(* (and / weighted or / thresh) and their lifting; paths (prime            *)
(* implicant candidates) for the mixed-time-lock check.                    *)
(* Semantic policy: [p, n, xs];  concrete policy: [p, n, xs] with          *)
(* p \in {"and", "or", "thresh", leaves...} (odds are irrelevant here).    *)
(***************************************************************************)
EXTENDS Policy

LeafKinds == {"key", "after", "older"} \cup HashFrags
IsLeaf(P) == P.p \in LeafKinds

RECURSIVE Atoms(_)
Atoms(P) == IF IsLeaf(P) THEN {<<P.p, P.n>>}
            ELSE UNION {Atoms(P.xs[q]) : q \in 1..Len(P.xs)}

RECURSIVE EvalA(_, _)
RECURSIVE CountA(_, _, _)
CountA(xs, q, T) == IF q > Len(xs) THEN 0 ELSE (IF EvalA(xs[q], T) THEN 1 ELSE 0) + CountA(xs, q + 1, T)
EvalA(P, T) ==
  CASE P.p = "unsat" -> FALSE
    [] P.p = "trivial" -> TRUE
    [] IsLeaf(P) -> <<P.p, P.n>> \in T
    [] P.p = "thresh" -> CountA(P.xs, 1, T) >= P.n
    [] P.p = "and" -> CountA(P.xs, 1, T) = Len(P.xs)
    [] P.p = "or" -> CountA(P.xs, 1, T) >= 1

SameTable(P, Q) == \A T \in SUBSET (Atoms(P) \cup Atoms(Q)) : EvalA(P, T) = EvalA(Q, T)
Entails(P, Q)   == \A T \in SUBSET (Atoms(P) \cup Atoms(Q)) : EvalA(P, T) => EvalA(Q, T)
SatisfiableA(P) == \E T \in SUBSET Atoms(P) : EvalA(P, T)
KeysIn(T) == {a \in T : a[1] = "key"}
MinKeys(P) == LET S == {Cardinality(KeysIn(T)) : T \in {U \in SUBSET Atoms(P) : EvalA(P, U)}}
              IN CHOOSE m \in S : \A x \in S : m <= x
SafeA(P) == \A T \in SUBSET Atoms(P) : EvalA(P, T) => KeysIn(T) # {}

\* number of key leaves, duplicates counted
RECURSIVE NKeys(_)
RECURSIVE NKeysSeq(_, _)
NKeysSeq(xs, q) == IF q > Len(xs) THEN 0 ELSE NKeys(xs[q]) + NKeysSeq(xs, q + 1)
NKeys(P) == IF P.p = "key" THEN 1 ELSE NKeysSeq(P.xs, 1)

(***************************************************************************)
(* minimal satisfying atom sets ("paths")                                  *)
(***************************************************************************)
MinimalSat(P) ==
  LET S == {T \in SUBSET Atoms(P) : EvalA(P, T)} IN {T \in S : \A U \in S : U \subseteq T => U = T}
IsHeightAfter(a) == a[1] = "after" /\ a[2] < LOCKTIME_THRESHOLD
IsTimeAfter(a)   == a[1] = "after" /\ a[2] >= LOCKTIME_THRESHOLD
IsHeightOlder(a) == a[1] = "older" /\ (a[2] \div SEQ_TYPE_FLAG) % 2 = 0
IsTimeOlder(a)   == a[1] = "older" /\ (a[2] \div SEQ_TYPE_FLAG) % 2 = 1
MixedPath(T) == \/ (\E a \in T : IsHeightAfter(a)) /\ (\E a \in T : IsTimeAfter(a))
                \/ (\E a \in T : IsHeightOlder(a)) /\ (\E a \in T : IsTimeOlder(a))
MixedPolicy(P) == \E T \in MinimalSat(P) : MixedPath(T)

(***************************************************************************)
(* Tree paths: one way of choosing branches (an or-branch, a k-subset of a *)
(* threshold).  The *static* reading of "a satisfying path needs both      *)
(* units" lets UNSATISFIABLE and non-minimal choices stand; the *strict*   *)
(* reading is MixedPolicy above.  A check that fires must be justified by  *)
(* the static reading, a check that stays silent by the strict one.        *)
(***************************************************************************)
RECURSIVE TreePaths(_)
RECURSIVE PathProduct(_, _)
\* unions of one path from each policy of the sequence
PathProduct(xs, q) ==
  IF q > Len(xs) THEN {{}}
  ELSE {a \cup c : a \in TreePaths(xs[q]), c \in PathProduct(xs, q + 1)}
RECURSIVE KSubseqs(_, _, _)
KSubseqs(xs, q, k) ==
  IF k = 0 THEN {<<>>}
  ELSE IF q > Len(xs) THEN {}
  ELSE {<<xs[q]>> \o r : r \in KSubseqs(xs, q + 1, k - 1)} \cup KSubseqs(xs, q + 1, k)
TreePaths(P) ==
  CASE P.p \in {"unsat", "trivial"} -> {{}}
    [] IsLeaf(P) -> {{<<P.p, P.n>>}}
    [] P.p = "and" -> PathProduct(P.xs, 1)
    [] P.p = "or" -> UNION {TreePaths(P.xs[q]) : q \in 1..Len(P.xs)}
    [] P.p = "thresh" -> UNION {PathProduct(sub, 1) : sub \in KSubseqs(P.xs, 1, P.n)}
MixedStatic(P) == \E T \in TreePaths(P) : MixedPath(T)

(***************************************************************************)
(* restriction by age / lock time (world semantics): atoms that are locks  *)
(* become true/false according to the given value                          *)
(***************************************************************************)
RelImplied(n, age) == ((n \div SEQ_TYPE_FLAG) % 2 = (age \div SEQ_TYPE_FLAG) % 2) /\ (n % 65536) <= (age % 65536)
AbsImplied(n, t)   == ((n < LOCKTIME_THRESHOLD) = (t < LOCKTIME_THRESHOLD)) /\ n <= t
\* assignments consistent with age: older atoms true only if implied
AgeOK(T, P, age) == \A a \in T : a[1] = "older" => RelImplied(a[2], age)
TimeOK(T, P, t)  == \A a \in T : a[1] = "after" => AbsImplied(a[2], t)
=============================================================================
