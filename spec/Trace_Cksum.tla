------------------------------ MODULE Trace_Cksum ------------------------------
(***************************************************************************)
(* C10, checksum and descriptor text.  Per base descriptor the harness     *)
(* prints it with the library, tries every single-character substitution   *)
(* and sampled double / in-group triple and quadruple substitutions        *)
(* against verify_checksum and Descriptor::from_str, and reports           *)
(*   s         the printed string (INPUT_CHARSET codes)                    *)
(*   accepted  every corrupted string the library accepted                 *)
(*   sample    a few corrupted strings with the library's verdict          *)
(*   eng       a few (payload, checksum) pairs from the library's engine   *)
(*   rt        print/parse facts of the descriptor and of its keys         *)
(* Each is judged with Checksum.tla (L1).  The lemma that no string at     *)
(* these distances from a valid one is valid is MC_Checksum.               *)
(***************************************************************************)
EXTENDS Checksum, Json, IOUtils, SequencesExt

ASSUME TLCSet(1, ndJsonDeserialize(IOEnv.TRACE))
Rec == TLCGet(1)
NB == 64

VARIABLES b, i
Init == b = 0 /\ i = 0
Next == \/ b = 0 /\ b' \in 1..NB /\ i' = 0
        \/ b > 0 /\ i = 0 /\ b' = b /\ i' \in {j \in 1..Len(Rec) : j % NB = b - 1}

Report(prop, clause, ev, detail) == PrintT("VERDICT " \o ToJson(<<prop, clause, ev.id, 0, detail>>))

\* the corruption a mutant claims to be: the harness must really have produced it (vacuity guard)
ClassOK(base, m) ==
  /\ Len(m.s) = Len(base)
  /\ LET d == Cardinality(Diff(base, m.s)) IN
     CASE m.cls = "one" -> d = 1
       [] m.cls = "two" -> d = 2
       [] m.cls = "grp3" -> d = 3 /\ InGroup(base, m.s)
       [] m.cls = "grp4" -> d = 4 /\ InGroup(base, m.s)
       [] OTHER -> FALSE

JudgeMutant(ev, m) ==
  /\ (ClassOK(ev.s, m) \/ Report("TOOL", "harness_mutant_not_in_class", ev, m.cls))
  \* a corrupted string is accepted only if it carries a valid checksum (by MC_Checksum: never)
  /\ (~m.lib_ok \/ ValidStr(m.s) \/ Report("C10", "corrupted_descriptor_accepted", ev, <<m.cls, m.via, m.text>>))

JudgeEng(ev, e) ==
  Checksum(e.p) = [q \in 1..8 |-> SymOf(e.sum[q])]
  \/ Report("C10", "engine_checksum_differs_from_bip380", ev, e.text)

JudgeEvent(ev) ==
  /\ (~ev.panic \/ Report("C11", "descriptor_text_panic", ev, ev.msg))
  /\ (ev.panic \/ ~ev.parsed \/
      /\ (ValidStr(ev.s) \/ Report("C10", "printed_checksum_is_not_bip380", ev, ev.text))
      /\ (ev.rt.ok \/ Report("C10", "printed_descriptor_rejected", ev, ev.rt.msg))
      /\ (~ev.rt.ok \/
          /\ (ev.rt.eq \/ Report("C10", "descriptor_reparse_not_equal", ev, ev.text))
          /\ (ev.rt.fix \/ Report("C10", "descriptor_print_not_fixpoint", ev, ev.text))
          /\ (ev.rt.alt_eq \/ Report("C10", "descriptor_without_checksum_differs", ev, ev.text))
          /\ (ev.rt.same_spk \/ Report("C10", "reparsed_descriptor_other_script", ev, ev.text)))
      /\ \A q \in 1..Len(ev.keys) :
           LET k == ev.keys[q] IN
           /\ (k.ok \/ Report("C10", "key_expression_rejected", ev, k.text))
           /\ (~k.ok \/ (k.eq /\ k.fix) \/ Report("C10", "key_expression_round_trip", ev, k.text))
      \* wallet policy (BIP388): template text round-trips; template + key vector = the descriptor
      /\ (ev.wp.st # "panic" \/ Report("C11", "wallet_policy_panic", ev, ev.text))
      /\ (ev.wp.st # "ok" \/
          /\ (ev.wp.tpl_rt \/ Report("C10", "wallet_policy_template_round_trip", ev, ev.wp.tpl))
          /\ (ev.wp.back_eq \/ Report("C10", "wallet_policy_does_not_give_back_descriptor", ev, ev.wp.tpl))
          /\ (ev.wp.from_str_eq \/ Report("C10", "wallet_policy_from_descriptor_string_differs", ev, ev.wp.tpl))
          /\ (ev.wp.rekey_eq \/ Report("C10", "wallet_policy_template_plus_keys_differs", ev, ev.wp.tpl)))
      /\ \A q \in 1..Len(ev.accepted) : JudgeMutant(ev, ev.accepted[q])
      /\ \A q \in 1..Len(ev.sample) : JudgeMutant(ev, ev.sample[q])
      /\ \A q \in 1..Len(ev.eng) : JudgeEng(ev, ev.eng[q]))

Inv == i > 0 => JudgeEvent(Rec[i])
Post == PrintT("TRACE_DONE " \o ToJson(<<Len(Rec), TLCGet("stats").distinct>>))
=============================================================================
