------------------------------- MODULE Script -------------------------------
(***************************************************************************)
(* L1 ground truth: an abstract Bitcoin Script machine.                    *)
(*                                                                         *)
(* The machine is an explicit state machine: a VM state is a record        *)
(*   [pc, st, alt, ex, ops, maxd, err, log]                                *)
(* and `Step(vm, script, env)` is the transition function (one disjunct    *)
(* per opcode class).  `Run` iterates it to the end of the script.         *)
(* MC_Script.tla wraps the same `Step` into Init/Next so that TLC explores *)
(* the machine as a state graph; every trace specification re-uses `Run`   *)
(* as the oracle that decides whether a witness the library produced       *)
(* really spends.                                                          *)
(*                                                                         *)
(* Elements are flat records [t, k, q] (uniformly typed so that TLC can    *)
(* compare any two of them):                                               *)
(*   e0            the empty vector (false)                                *)
(*   num  k        minimally encoded positive script number k (E1 = num 1) *)
(*   fz            a non-empty encoding of false (0x00, 0x80): never       *)
(*                 produced by the library, only by adversaries            *)
(*   sig  k q      a syntactically valid signature; q = "good" iff it      *)
(*                 verifies under key k for the sighash of the spending    *)
(*                 context (established by alpha with secp256k1)           *)
(*   key  k q      serialised public key k; q in {"c","u","x"} form        *)
(*   pre  k q      the 32-byte preimage of universe hash number k, kind q  *)
(*   hash k q      digest number k of kind q (only ever pushed by scripts) *)
(*   kh   k q      HASH160 of key k in form q                              *)
(*   z32           32 zero bytes (false as a boolean!)                     *)
(*   j32  k        32 junk bytes number k (non-zero)                       *)
(*   junk k        other junk (5 bytes, non-zero, not a number)            *)
(*   hx   k q      digest of something that is not a universe preimage     *)
(***************************************************************************)
EXTENDS Integers, Sequences, FiniteSets, TLC

Elem(t, k, q) == [t |-> t, k |-> k, q |-> q]
E0      == Elem("e0", 0, "")
Num(n)  == Elem("num", n, "")
NumE(n) == IF n = 0 THEN E0 ELSE Num(n)
E1      == Num(1)
FZ      == Elem("fz", 0, "")
Sig(k, q)  == Elem("sig", k, q)
Key(k, f)  == Elem("key", k, f)
Pre(h, kd) == Elem("pre", h, kd)
HashE(h, kd) == Elem("hash", h, kd)
KH(k, f)   == Elem("kh", k, f)
Z32     == Elem("z32", 0, "")
J32(i)  == Elem("j32", i, "")
Junk(i) == Elem("junk", i, "")

Truthy(e) == e.t \notin {"e0", "fz", "z32"}

\* byte length of an element as OP_SIZE sees it
SizeOf(e) ==
  CASE e.t = "e0"   -> 0
    [] e.t = "num"  -> IF e.k < 128 THEN 1 ELSE IF e.k < 32768 THEN 2
                       ELSE IF e.k < 8388608 THEN 3 ELSE IF e.k < 2147483647 THEN 4 ELSE 5
    [] e.t = "fz"   -> 1
    [] e.t = "sig"  -> IF e.q \in {"good", "bad"} THEN 72 ELSE 64
    [] e.t = "key"  -> IF e.q = "c" THEN 33 ELSE IF e.q = "u" THEN 65 ELSE 32
    [] e.t \in {"pre", "z32", "j32"} -> 32
    [] e.t = "hash" -> IF e.q \in {"sha256", "hash256"} THEN 32 ELSE 20
    [] e.t = "kh"   -> 20
    [] e.t = "hx"   -> IF e.q \in {"sha256", "hash256"} THEN 32 ELSE 20
    [] OTHER        -> 5

\* numeric view for arithmetic opcodes: only <= 4-byte minimal numbers
IsNum(e) == e.t \in {"e0", "num"} /\ (e.t = "num" => e.k < 2147483647)
\* without MINIMALDATA (a standardness flag) 0x00 / 0x80 is the number 0
IsNumEnv(e, env) == IsNum(e) \/ (e.t = "fz" /\ ~env.std)
AsNum(e) == IF e.t = "num" THEN e.k ELSE 0
\* CLTV / CSV accept 5-byte numbers
IsNum5(e) == e.t \in {"e0", "num"}

(***************************************************************************)
(* Scripts are sequences of ops [op |-> name, e |-> element]; e is E0 for  *)
(* everything but PUSH.                                                    *)
(***************************************************************************)
Op(name)  == [op |-> name, e |-> E0]
Push(e)   == [op |-> "PUSH", e |-> e]
PushNum(n) == Push(NumE(n))

\* ops that count towards the 201 limit (everything above OP_16)
CountsAsOp(o) == o.op # "PUSH"

(***************************************************************************)
(* Environment: the facts about the spending transaction and the rule set. *)
(*   rules : "legacy" | "segwitv0" | "tap"   (which interpreter)           *)
(*   std   : TRUE = standardness flags on top of consensus                 *)
(*   lock  : nLockTime (Int < 2^31)                                        *)
(*   seq   : [final, dis, time, v]  nSequence = 0xffffffff / bit 31 /      *)
(*           bit 22 / low 16 bits                                          *)
(*   ver   : transaction version                                           *)
(***************************************************************************)
LOCKTIME_THRESHOLD == 500000000
SEQ_TYPE_FLAG      == 4194304   \* 1 << 22
SEQ_DISABLE_FLAG   == 2147483647 \* anything >= 2^31 cannot be represented; see CsvDisabled

CltvOk(n, env) ==
  /\ (n < LOCKTIME_THRESHOLD) = (env.lock < LOCKTIME_THRESHOLD)
  /\ n <= env.lock
  /\ ~env.seq.final

\* n is the script operand (bit 31 never set in our universe: Miniscript forbids it)
CsvOk(n, env) ==
  /\ env.ver >= 2
  /\ ~env.seq.dis
  /\ ((n \div SEQ_TYPE_FLAG) % 2 = 1) = env.seq.time
  /\ (n % 65536) <= env.seq.v

(***************************************************************************)
(* VM state                                                                *)
(***************************************************************************)
InitVM(stack) ==
  [pc |-> 1, st |-> stack, alt |-> <<>>, ex |-> <<>>, ops |-> 0,
   maxd |-> Len(stack), err |-> "", log |-> <<>>]

Executing(vm) == \A i \in 1..Len(vm.ex) : vm.ex[i]

Top(s)    == s[Len(s)]
Pop(s)    == SubSeq(s, 1, Len(s) - 1)
PopN(s,n) == SubSeq(s, 1, Len(s) - n)
Nth(s, i) == s[Len(s) - i]           \* 0 = top

Fail(vm, why) == [vm EXCEPT !.err = why]

\* signature check: element s against key element kk.
\*   result "ok" (valid), "no" (invalid, push false), or an error string
CheckSigRes(s, kk, env) ==
  IF env.rules = "tap"
  THEN IF kk.t # "key" \/ kk.q # "x" THEN "err_pubkeytype"
       ELSE IF s.t = "e0" THEN "no"
       ELSE IF s.t = "sig" /\ s.q = "good" /\ s.k = kk.k THEN "ok"
       ELSE "err_sig_tap"                      \* non-empty invalid sig aborts
  ELSE IF s.t = "e0" THEN "no"
       ELSE IF s.t # "sig" THEN "err_sig_der"  \* BIP66: must be strict DER
       ELSE IF kk.t # "key" THEN (IF env.std THEN "err_pubkeytype" ELSE "no")
       ELSE IF env.std /\ env.rules = "segwitv0" /\ kk.q # "c" THEN "err_witness_pubkeytype"
       ELSE IF kk.q = "x" THEN (IF env.std THEN "err_pubkeytype" ELSE "no")
       ELSE IF s.q = "good" /\ s.k = kk.k THEN "ok"
       ELSE IF env.std THEN "err_nullfail" ELSE "no"

IsErr(r) == r \notin {"ok", "no"}

\* CHECKMULTISIG walk: sigs and keys in push order (last = top).  Returns
\* "ok", "no" or an error.
RECURSIVE MultiWalk(_, _, _)
MultiWalk(ss, ks, env) ==
  IF Len(ss) = 0 THEN "ok"
  ELSE IF Len(ss) > Len(ks) THEN "no"
  ELSE LET r == CheckSigRes(Top(ss), Top(ks), [env EXCEPT !.std = FALSE]) IN
       IF IsErr(r) THEN r
       ELSE IF r = "ok" THEN MultiWalk(Pop(ss), Pop(ks), env)
       ELSE MultiWalk(ss, Pop(ks), env)

Bump(vm, newst) ==
  LET d == Len(newst) + Len(vm.alt) IN
  [vm EXCEPT !.st = newst, !.pc = vm.pc + 1, !.maxd = IF d > vm.maxd THEN d ELSE vm.maxd]

HashOf(x, kind) ==
  IF x.t = "pre" /\ x.q = kind THEN HashE(x.k, kind)
  ELSE IF x.t = "key" /\ kind = "hash160" THEN KH(x.k, x.q)
  ELSE Elem("hx", 0, kind)

(***************************************************************************)
(* One step.  Preconditions: vm.err = "" and vm.pc <= Len(script).         *)
(***************************************************************************)
Step(vm, script, env) ==
  LET o   == script[vm.pc]
      nm  == o.op
      st  == vm.st
      n   == Len(st)
      ops1 == IF CountsAsOp(o) THEN vm.ops + 1 ELSE vm.ops
      v0  == [vm EXCEPT !.ops = ops1]
      exe == Executing(vm)
  IN
  IF env.rules # "tap" /\ ops1 > 201 THEN Fail(v0, "err_op_count")
  ELSE IF nm \in {"IF", "NOTIF"} THEN
    IF ~exe THEN [v0 EXCEPT !.ex = Append(vm.ex, FALSE), !.pc = vm.pc + 1]
    ELSE IF n < 1 THEN Fail(v0, "err_unbalanced_conditional")
    ELSE LET c == Top(st)
             minimal == c = E0 \/ c = E1
             mustMin == env.rules = "tap" \/ (env.rules = "segwitv0" /\ env.std)
         IN IF mustMin /\ ~minimal THEN Fail(v0, "err_minimalif")
            ELSE LET b == IF nm = "IF" THEN Truthy(c) ELSE ~Truthy(c) IN
                 [Bump(v0, Pop(st)) EXCEPT !.ex = Append(vm.ex, b)]
  ELSE IF nm = "ELSE" THEN
    IF Len(vm.ex) = 0 THEN Fail(v0, "err_unbalanced_conditional")
    ELSE [v0 EXCEPT !.ex = [vm.ex EXCEPT ![Len(vm.ex)] = ~vm.ex[Len(vm.ex)]], !.pc = vm.pc + 1]
  ELSE IF nm = "ENDIF" THEN
    IF Len(vm.ex) = 0 THEN Fail(v0, "err_unbalanced_conditional")
    ELSE [v0 EXCEPT !.ex = Pop(vm.ex), !.pc = vm.pc + 1]
  ELSE IF ~exe THEN
    \* disabled / always-illegal opcodes fail even when not executed; none of the
    \* named ops here is one of those; "OTHER" stands for OP_RETURN-like junk
    [v0 EXCEPT !.pc = vm.pc + 1]
  ELSE IF nm = "PUSH" THEN Bump(v0, Append(st, o.e))
  ELSE IF nm = "VERIFY" THEN
    IF n < 1 THEN Fail(v0, "err_stack")
    ELSE IF ~Truthy(Top(st)) THEN Fail(v0, "err_verify")
    ELSE Bump(v0, Pop(st))
  ELSE IF nm = "TOALTSTACK" THEN
    IF n < 1 THEN Fail(v0, "err_stack")
    ELSE [v0 EXCEPT !.st = Pop(st), !.alt = Append(vm.alt, Top(st)), !.pc = vm.pc + 1]
  ELSE IF nm = "FROMALTSTACK" THEN
    IF Len(vm.alt) < 1 THEN Fail(v0, "err_altstack")
    ELSE [v0 EXCEPT !.st = Append(st, Top(vm.alt)), !.alt = Pop(vm.alt), !.pc = vm.pc + 1]
  ELSE IF nm = "IFDUP" THEN
    IF n < 1 THEN Fail(v0, "err_stack")
    ELSE IF Truthy(Top(st)) THEN Bump(v0, Append(st, Top(st))) ELSE Bump(v0, st)
  ELSE IF nm = "DUP" THEN
    IF n < 1 THEN Fail(v0, "err_stack") ELSE Bump(v0, Append(st, Top(st)))
  ELSE IF nm = "DROP" THEN
    IF n < 1 THEN Fail(v0, "err_stack") ELSE Bump(v0, Pop(st))
  ELSE IF nm = "SWAP" THEN
    IF n < 2 THEN Fail(v0, "err_stack")
    ELSE Bump(v0, PopN(st, 2) \o <<Nth(st, 0), Nth(st, 1)>>)
  ELSE IF nm = "SIZE" THEN
    IF n < 1 THEN Fail(v0, "err_stack") ELSE Bump(v0, Append(st, NumE(SizeOf(Top(st)))))
  ELSE IF nm \in {"EQUAL", "EQUALVERIFY"} THEN
    IF n < 2 THEN Fail(v0, "err_stack")
    ELSE LET eq == Nth(st, 0) = Nth(st, 1)
             lg == IF eq /\ Nth(st, 0).t = "hash"
                   THEN Append(vm.log, [c |-> Nth(st, 0).q, k |-> Nth(st, 0).k]) ELSE vm.log
         IN
         IF nm = "EQUAL" THEN [Bump(v0, Append(PopN(st, 2), IF eq THEN E1 ELSE E0)) EXCEPT !.log = lg]
         ELSE IF eq THEN [Bump(v0, PopN(st, 2)) EXCEPT !.log = lg] ELSE Fail(v0, "err_equalverify")
  ELSE IF nm \in {"BOOLAND", "BOOLOR", "ADD", "NUMEQUAL", "NUMEQUALVERIFY"} THEN
    IF n < 2 THEN Fail(v0, "err_stack")
    ELSE LET a == Nth(st, 1)  b == Nth(st, 0) IN
      IF ~IsNumEnv(a, env) \/ ~IsNumEnv(b, env) THEN Fail(v0, "err_scriptnum")
      ELSE LET x == AsNum(a)  y == AsNum(b)
               r == CASE nm = "BOOLAND" -> IF x # 0 /\ y # 0 THEN 1 ELSE 0
                      [] nm = "BOOLOR"  -> IF x # 0 \/ y # 0 THEN 1 ELSE 0
                      [] nm = "ADD"     -> x + y
                      [] OTHER          -> IF x = y THEN 1 ELSE 0
           IN IF nm = "NUMEQUALVERIFY"
              THEN IF r = 1 THEN Bump(v0, PopN(st, 2)) ELSE Fail(v0, "err_numequalverify")
              ELSE Bump(v0, Append(PopN(st, 2), NumE(r)))
  ELSE IF nm = "0NOTEQUAL" THEN
    IF n < 1 THEN Fail(v0, "err_stack")
    ELSE IF ~IsNumEnv(Top(st), env) THEN Fail(v0, "err_scriptnum")
    ELSE Bump(v0, Append(Pop(st), IF AsNum(Top(st)) # 0 THEN E1 ELSE E0))
  ELSE IF nm \in {"SHA256", "HASH256", "RIPEMD160", "HASH160"} THEN
    IF n < 1 THEN Fail(v0, "err_stack")
    ELSE LET kind == CASE nm = "SHA256" -> "sha256" [] nm = "HASH256" -> "hash256"
                       [] nm = "RIPEMD160" -> "ripemd160" [] OTHER -> "hash160"
         IN Bump(v0, Append(Pop(st), HashOf(Top(st), kind)))
  ELSE IF nm \in {"CHECKSIG", "CHECKSIGVERIFY"} THEN
    IF n < 2 THEN Fail(v0, "err_stack")
    ELSE LET kk == Nth(st, 0)  s == Nth(st, 1)
             r  == CheckSigRes(s, kk, env)
             lg == IF r = "ok" THEN Append(vm.log, [c |-> "sig", k |-> kk.k]) ELSE vm.log
         IN IF IsErr(r) THEN Fail(v0, r)
            ELSE IF nm = "CHECKSIG"
                 THEN [Bump(v0, Append(PopN(st, 2), IF r = "ok" THEN E1 ELSE E0)) EXCEPT !.log = lg]
                 ELSE IF r = "ok" THEN [Bump(v0, PopN(st, 2)) EXCEPT !.log = lg]
                      ELSE Fail(v0, "err_checksigverify")
  ELSE IF nm = "CHECKSIGADD" THEN
    IF env.rules # "tap" THEN Fail(v0, "err_bad_opcode")
    ELSE IF n < 3 THEN Fail(v0, "err_stack")
    ELSE LET kk == Nth(st, 0)  nn == Nth(st, 1)  s == Nth(st, 2)
             r  == CheckSigRes(s, kk, env)
         IN IF ~IsNum(nn) THEN Fail(v0, "err_scriptnum")
            ELSE IF IsErr(r) THEN Fail(v0, r)
            ELSE [Bump(v0, Append(PopN(st, 3), NumE(AsNum(nn) + (IF r = "ok" THEN 1 ELSE 0))))
                    EXCEPT !.log = IF r = "ok" THEN Append(vm.log, [c |-> "sig", k |-> kk.k]) ELSE vm.log]
  ELSE IF nm \in {"CHECKMULTISIG", "CHECKMULTISIGVERIFY"} THEN
    IF env.rules = "tap" THEN Fail(v0, "err_tapscript_checkmultisig")
    ELSE IF n < 1 \/ ~IsNum(Top(st)) THEN Fail(v0, "err_stack")
    ELSE LET nk == AsNum(Top(st)) IN
      IF nk > 20 THEN Fail(v0, "err_pubkey_count")
      ELSE IF v0.ops + nk > 201 THEN Fail(v0, "err_op_count")
      ELSE IF n < nk + 2 \/ ~IsNum(Nth(st, nk + 1)) THEN Fail(v0, "err_stack")
      ELSE LET ns == AsNum(Nth(st, nk + 1)) IN
        IF ns > nk THEN Fail(v0, "err_sig_count")
        ELSE IF n < nk + ns + 3 THEN Fail(v0, "err_stack")
        ELSE LET keys  == SubSeq(st, n - nk, n - 1)
                 sigs  == SubSeq(st, n - nk - 1 - ns, n - nk - 2)
                 dummy == st[n - nk - 2 - ns]
                 rest  == SubSeq(st, 1, n - nk - 3 - ns)
                 r     == MultiWalk(sigs, keys, env)
                 v1    == [v0 EXCEPT !.ops = v0.ops + nk]
                 anyNonEmpty == \E i \in 1..Len(sigs) : sigs[i] # E0
                 lg == IF r = "ok"
                       THEN vm.log \o [i \in 1..Len(sigs) |-> [c |-> "sig", k |-> sigs[i].k]]
                       ELSE vm.log
             IN IF IsErr(r) THEN Fail(v1, r)
                ELSE IF dummy # E0 THEN Fail(v1, "err_nulldummy")
                ELSE IF r = "no" /\ env.std /\ anyNonEmpty THEN Fail(v1, "err_nullfail")
                ELSE IF nm = "CHECKMULTISIG"
                     THEN [Bump(v1, Append(rest, IF r = "ok" THEN E1 ELSE E0)) EXCEPT !.log = lg]
                     ELSE IF r = "ok" THEN [Bump(v1, rest) EXCEPT !.log = lg]
                          ELSE Fail(v1, "err_checkmultisigverify")
  ELSE IF nm = "CLTV" THEN
    IF n < 1 THEN Fail(v0, "err_stack")
    ELSE IF ~IsNum5(Top(st)) THEN Fail(v0, "err_scriptnum")
    ELSE IF ~CltvOk(AsNum(Top(st)), env) THEN Fail(v0, "err_cltv")
    ELSE [Bump(v0, st) EXCEPT !.log = Append(vm.log, [c |-> "after", k |-> AsNum(Top(st))])]
  ELSE IF nm = "CSV" THEN
    IF n < 1 THEN Fail(v0, "err_stack")
    ELSE IF ~IsNum5(Top(st)) THEN Fail(v0, "err_scriptnum")
    ELSE IF ~CsvOk(AsNum(Top(st)), env) THEN Fail(v0, "err_csv")
    ELSE [Bump(v0, st) EXCEPT !.log = Append(vm.log, [c |-> "older", k |-> AsNum(Top(st))])]
  ELSE Fail(v0, "err_bad_opcode")

RECURSIVE RunFrom(_, _, _)
RunFrom(vm, script, env) ==
  IF vm.err # "" THEN vm
  ELSE IF vm.pc > Len(script)
       THEN IF Len(vm.ex) # 0 THEN Fail(vm, "err_unbalanced_conditional") ELSE vm
  ELSE IF vm.maxd > 1000 THEN Fail(vm, "err_stack_size")
  ELSE RunFrom(Step(vm, script, env), script, env)

Run(script, stack, env) == RunFrom(InitVM(stack), script, env)

\* success of a script run *as a fragment*: no error
RunOk(vm) == vm.err = ""

\* success as a complete script under the rule set (CLEANSTACK where it applies)
CleanStackRequired(env) == env.rules \in {"segwitv0", "tap"} \/ env.std
Accepts(vm, env) ==
  /\ vm.err = ""
  /\ Len(vm.st) >= 1
  /\ Truthy(Top(vm.st))
  /\ (CleanStackRequired(env) => Len(vm.st) = 1)

ScriptAccepts(script, stack, env) == Accepts(Run(script, stack, env), env)

=============================================================================
