----------------------------- MODULE TrCompile -----------------------------
(***************************************************************************)
(* L2: how Concrete::compile_tr lays a policy out as a taproot output      *)
(* (src/policy/concrete.rs: TapleafProbabilityIter, extract_key,           *)
(* with_huffman_tree).                                                     *)
(*  - leaf enumeration: a work-list (stack) of (probability, sub-policy);   *)
(*    an `or` splits its probability by the odds of its arms, a 1-of-n     *)
(*    threshold equally, anything else is a leaf; arms are visited in      *)
(*    written order;                                                       *)
(*  - internal key: the key leaf of highest probability (the LAST of       *)
(*    several equally likely ones), else the unspendable key handed in;    *)
(*    the extracted key's leaf disappears from the tree;                   *)
(*  - tree: Huffman - repeatedly join the two least likely nodes.  Which   *)
(*    of several equally likely nodes the binary heap yields is not        *)
(*    modelled: HuffOutcomes is the SET of depth multisets any tie-break   *)
(*    can produce.                                                         *)
(* Probabilities are integers over the common denominator Denom(P) (the    *)
(* product of all odds totals and 1-of-n arities), so no rounding occurs.  *)
(* Policies: [p, n, xs, w] as in Gen_Compile.                              *)
(***************************************************************************)
EXTENDS Integers, Sequences, FiniteSets, TLC

IsOr1(P) == P.p = "thresh" /\ P.n = 1
RECURSIVE SumSeq(_, _)
SumSeq(s, q) == IF q > Len(s) THEN 0 ELSE s[q] + SumSeq(s, q + 1)
RECURSIVE Denom(_)
RECURSIVE DenomSeq(_, _)
DenomSeq(xs, q) == IF q > Len(xs) THEN 1 ELSE Denom(xs[q]) * DenomSeq(xs, q + 1)
\* only the or / 1-of-n spine splits probability
Denom(P) == IF P.p = "or" THEN SumSeq(P.w, 1) * DenomSeq(P.xs, 1)
            ELSE IF IsOr1(P) THEN Len(P.xs) * DenomSeq(P.xs, 1)
            ELSE 1

RECURSIVE LeafIter(_, _)
\* the work-list: stack = sequence of [w, pol], popped from the end; returns the leaves in order
LeafIter(stack, acc) ==
  IF stack = <<>> THEN acc
  ELSE LET top == stack[Len(stack)]
           rest == SubSeq(stack, 1, Len(stack) - 1)
           P == top.pol
       IN IF P.p = "or"
          THEN LET tot == SumSeq(P.w, 1)
                   n == Len(P.xs)
               IN LeafIter(rest \o [q \in 1..n |-> [w |-> (top.w * P.w[n - q + 1]) \div tot, pol |-> P.xs[n - q + 1]]], acc)
          ELSE IF IsOr1(P)
          THEN LET n == Len(P.xs) IN
               LeafIter(rest \o [q \in 1..n |-> [w |-> top.w \div n, pol |-> P.xs[n - q + 1]]], acc)
          ELSE LeafIter(rest, Append(acc, top))
TrLeaves(P) == LeafIter(<<[w |-> Denom(P), pol |-> P]>>, <<>>)

\* extract_key: index of the chosen key leaf (0 if none): highest weight, last among equals
KeyLeaf(L) ==
  LET K == {q \in 1..Len(L) : L[q].pol.p = "key"} IN
  IF K = {} THEN 0
  ELSE CHOOSE q \in K : \A r \in K : L[r].w < L[q].w \/ (L[r].w = L[q].w /\ r <= q)

(***************************************************************************)
(* Huffman: a node is [w, ls], ls = the leaves below it as <<weight, depth>> *)
(* pairs in ascending (depth, weight) order                                *)
(***************************************************************************)
PairLeq(a, c) == a[2] < c[2] \/ (a[2] = c[2] /\ a[1] <= c[1])
RECURSIVE InsertAsc(_, _)
InsertAsc(s, x) == IF s = <<>> THEN <<x>> ELSE IF PairLeq(x, Head(s)) THEN <<x>> \o s ELSE <<Head(s)>> \o InsertAsc(Tail(s), x)
RECURSIVE SortAsc(_)
SortAsc(s) == IF s = <<>> THEN <<>> ELSE InsertAsc(SortAsc(Tail(s)), Head(s))
Deeper(ls) == [q \in 1..Len(ls) |-> <<ls[q][1], ls[q][2] + 1>>]
Join(a, c) == [w |-> a.w + c.w, ls |-> SortAsc(Deeper(a.ls) \o Deeper(c.ls))]
RECURSIVE Without(_, _, _, _)
Without(s, i, j, q) == IF q > Len(s) THEN <<>> ELSE (IF q = i \/ q = j THEN <<>> ELSE <<s[q]>>) \o Without(s, i, j, q + 1)
RECURSIVE HuffOutcomes(_)
\* every result of joining, round after round, two nodes that can be the two least likely ones
HuffOutcomes(S) ==
  IF Len(S) = 1 THEN {S[1].ls}
  ELSE UNION {HuffOutcomes(Append(Without(S, p[1], p[2], 1), Join(S[p[1]], S[p[2]])))
              : p \in {x \in (1..Len(S)) \X (1..Len(S)) :
                   /\ x[1] < x[2]
                   /\ \A r \in 1..Len(S) : r \notin {x[1], x[2]} => (S[x[1]].w <= S[r].w /\ S[x[2]].w <= S[r].w)}}
HuffStart(ws) == [q \in 1..Len(ws) |-> [w |-> ws[q], ls |-> <<<<ws[q], 0>>>>]]
DepthsOf(ls) == [q \in 1..Len(ls) |-> ls[q][2]]
CostOf(ls) == SumSeq([q \in 1..Len(ls) |-> ls[q][1] * ls[q][2]], 1)

\* the least expected depth any binary tree over the weights can have: a tree over the index set I
\* splits it in two, and every leaf below pays one level
RECURSIVE OptCost(_, _)
OptCost(ws, I) ==
  IF Cardinality(I) <= 1 THEN 0
  ELSE LET tot == SumSeq([q \in 1..Len(ws) |-> IF q \in I THEN ws[q] ELSE 0], 1)
           lo == CHOOSE m \in I : \A x \in I : m <= x
           costs == {OptCost(ws, A) + OptCost(ws, I \ A) : A \in {B \in SUBSET I : lo \in B /\ B # I}}
       IN tot + (CHOOSE c \in costs : \A d \in costs : c <= d)

(***************************************************************************)
(* the whole layout: internal key (0 = the unspendable key handed in) and  *)
(* the possible depth lists of the script leaves (ascending)               *)
(***************************************************************************)
TrLayout(P) ==
  LET L == TrLeaves(P)
      kq == KeyLeaf(L)
      rest == IF kq = 0 THEN L ELSE SubSeq(L, 1, kq - 1) \o SubSeq(L, kq + 1, Len(L))
      ws == [q \in 1..Len(rest) |-> rest[q].w]
  IN [ik |-> IF kq = 0 THEN 0 ELSE L[kq].pol.n,
      nleaves |-> Len(rest),
      depths |-> IF rest = <<>> THEN {<<>>} ELSE {DepthsOf(ls) : ls \in HuffOutcomes(HuffStart(ws))}]
=============================================================================
