----------------------------- MODULE Trace_Compile -----------------------------
(***************************************************************************)
(* C08: whenever the policy compiler returns a miniscript or descriptor,   *)
(* the output has the policy's spending semantics (truth tables over all   *)
(* asset worlds, script side by SatSet), is B / signed / non-malleable by  *)
(* the specification's type tables, obeys the sanity rules of its context  *)
(* and re-parses from its own text under the default rules.                *)
(***************************************************************************)
EXTENDS Validation, Json, IOUtils, TrCompile

ASSUME TLCSet(1, ndJsonDeserialize(IOEnv.TRACE))
Rec == TLCGet(1)
NB == 64

VARIABLES b, i
Init == b = 0 /\ i = 0
Next == \/ b = 0 /\ b' \in 1..NB /\ i' = 0
        \/ b > 0 /\ i = 0 /\ b' = b /\ i' \in {j \in 1..Len(Rec) : j % NB = b - 1}

Report(prop, clause, ev, j, detail) == PrintT("VERDICT " \o ToJson(<<prop, clause, ev.id, j, detail>>))

\* concrete policy under world semantics
RECURSIVE PEval(_, _)
RECURSIVE PCount(_, _, _)
PCount(xs, q, w) == IF q > Len(xs) THEN 0 ELSE (IF PEval(xs[q], w) THEN 1 ELSE 0) + PCount(xs, q + 1, w)
PEval(P, w) ==
  CASE P.p = "key" -> P.n \in w.sigs
    [] P.p = "after" -> CltvOk(P.n, w.env)
    [] P.p = "older" -> CsvOk(P.n, w.env)
    [] P.p \in HashFrags -> <<P.p, P.n>> \in w.pre
    [] P.p = "and" -> PCount(P.xs, 1, w) = Len(P.xs)
    [] P.p = "or" -> PCount(P.xs, 1, w) >= 1
    [] P.p = "thresh" -> PCount(P.xs, 1, w) >= P.n

RECURSIVE PAtoms(_)
PAtoms(P) == IF P.xs = <<>> THEN {<<P.p, P.n>>} ELSE UNION {PAtoms(P.xs[q]) : q \in 1..Len(P.xs)}

\* worlds over the policy's atoms: an AST with the same atoms provides them
AtomAst(a) == IF a[1] = "key" THEN Un("c", Leaf("pk_k", a[2])) ELSE Leaf(a[1], a[2])
RECURSIVE ChainAst(_)
ChainAst(S) == IF Cardinality(S) = 1 THEN AtomAst(CHOOSE a \in S : TRUE)
               ELSE LET a == CHOOSE x \in S : TRUE IN Bin("and_b", AtomAst(a), ChainAst(S \ {a}))
PolWorlds(P, ctx) == WorldsOfCtx(ChainAst(PAtoms(P)), ctx)

\* a policy of many atoms: its worlds are not enumerated (2^17 and more); typing, sanity, re-parsing
\* and the resource limits are judged, the last on real spends produced by the library's satisfier
IsWide(P) == Cardinality(PAtoms(P)) >= 9

\* resource limits of the target: the script as the specification encodes it, and every spend the
\* harness obtained (all keys, each key withheld in turn)
JudgeLimits(ev, j, o) ==
  LET ctx == o.ctx IN
  /\ (ByteLen(Encode(o.ast, ctx)) <= MaxStdScriptBytes(ctx)
      \/ Report("C08", "output_script_exceeds_size_limit_of_target", ev, j, <<o.kind, ByteLen(Encode(o.ast, ctx))>>))
  /\ \A q \in 1..Len(o.sats) :
       LET s == o.sats[q] IN
       /\ (s.r # "panic" \/ Report("C11", "satisfier_panic_on_compiled_output", ev, j, o.kind))
       /\ (ctx # "legacy" \/ s.ssig_sat_bytes <= MaxStdScriptSigBytes
           \/ Report("C08", "output_has_spend_beyond_scriptsig_limit", ev, j, <<o.kind, s.drop, s.ssig_sat_bytes>>))
       /\ (ctx # "segwitv0" \/ s.wit_items <= MaxStdWitnessItems
           \/ Report("C08", "output_has_spend_beyond_witness_item_limit", ev, j, <<o.kind, s.drop, s.wit_items>>))

JudgeMs(ev, j, o) ==
  LET ctx == o.ctx  m == o.ast  P == ev.pol IN
  \A t \in {TypeOf(m, ctx)} :
  /\ (t.ok \/ Report("C08", "output_ill_typed", ev, j, o.kind))
  /\ (~t.ok \/
      /\ (t.b = "B" \/ Report("C08", "output_not_B", ev, j, o.kind))
      /\ ("s" \in t.fl \/ Report("C08", "output_has_signatureless_path", ev, j, o.kind))
      /\ ("m" \in t.fl \/ Report("C08", "output_malleable", ev, j, o.kind))
      /\ (ObeysSane(m, t, ctx) \/ Report("C08", "output_violates_context_sanity", ev, j, o.kind))
      /\ (o.reparse_sane \/ Report("C08", "output_does_not_reparse_under_default_rules", ev, j, o.kind))
      /\ JudgeLimits(ev, j, o)
      /\ (IsWide(P) \/ (\A w \in PolWorlds(P, ctx) : Spendable(m, w, ctx) = PEval(P, w))
          \/ Report("C08", "compilation_changed_spending_semantics", ev, j, o.kind)))

JudgeTr(ev, j, o) ==
  LET P == ev.pol IN
  /\ (o.reparse_sane \/ Report("C08", "output_does_not_reparse_under_default_rules", ev, j, o.kind))
  /\ \A q \in 1..Len(o.leaves) :
       \A t \in {TypeOf(o.leaves[q].ast, "tap")} :
       /\ ((t.ok /\ t.b = "B") \/ Report("C08", "leaf_not_B", ev, j, <<o.kind, q>>))
       /\ (~t.ok \/ ("s" \in t.fl /\ "m" \in t.fl) \/ Report("C08", "leaf_not_signed_nonmalleable", ev, j, <<o.kind, q>>))
       /\ (~t.ok \/ ObeysSane(o.leaves[q].ast, t, "tap") \/ Report("C08", "leaf_violates_context_sanity", ev, j, <<o.kind, q>>))
  /\ (IsWide(P) \/ (\A w \in PolWorlds(P, "tap") :
         ((o.ik \in w.sigs) \/ (\E q \in 1..Len(o.leaves) : Spendable(o.leaves[q].ast, w, "tap"))) = PEval(P, w))
      \/ Report("C08", "compilation_changed_spending_semantics", ev, j, o.kind))

\* L2 conformance: the taproot layout of compile_tr (TrCompile.tla): internal key, number of leaves,
\* and a depth list some Huffman tie-break produces
InsAsc(s, x) == LET RECURSIVE I(_)
                    I(q) == IF q > Len(s) THEN <<x>> ELSE IF x <= s[q] THEN <<x>> \o SubSeq(s, q, Len(s)) ELSE <<s[q]>> \o I(q + 1)
                IN I(1)
RECURSIVE AscDepths(_, _)
AscDepths(ls, q) == IF q > Len(ls) THEN <<>> ELSE InsAsc(AscDepths(ls, q + 1), ls[q].depth)
JudgeLayout(ev, j, o) ==
  IsWide(ev.pol) \/ o.kind \notin {"tr", "tr_desc"} \/
  \A lay \in {TrLayout(ev.pol)} :
    (o.ik = (IF lay.ik = 0 THEN 21 ELSE lay.ik) /\ Len(o.leaves) = lay.nleaves /\ AscDepths(o.leaves, 1) \in lay.depths)
    \/ Report("INFO", "drift_l2_trcompile", ev, j, <<o.kind, o.ik, lay.ik, AscDepths(o.leaves, 1), lay.depths>>)

JudgeEvent(ev) ==
  \A j \in 1..Len(ev.outs) :
    LET o == ev.outs[j] IN
    /\ (o.st # "panic" \/ Report("C11", "compiler_panic", ev, j, o.kind))
    /\ (o.st # "ok" \/ (IF o.kind \in {"ms", "d_bare", "d_sh", "d_wsh", "d_shwsh"} THEN JudgeMs(ev, j, o) ELSE JudgeTr(ev, j, o) /\ JudgeLayout(ev, j, o)))

Inv == i > 0 => JudgeEvent(Rec[i])
Post == PrintT("TRACE_DONE " \o ToJson(<<Len(Rec), TLCGet("stats").distinct>>))
=============================================================================
