---------------------------- MODULE MC_TapSpend ----------------------------
(* the spend-info machines on every tree shape up to MaxLeaves leaves, chains and bushes *)
EXTENDS TapSpendSM, SequencesExt
CONSTANTS MaxLeaves, ChainDepths

RECURSIVE Shapes(_, _)
\* every shape with n leaves named k, k+1, ... in depth-first order
Shapes(n, k) == IF n = 1 THEN {TLeaf(k)}
                ELSE UNION {{TNode(l, r) : l \in Shapes(i, k), r \in Shapes(n - i, k + i)} : i \in 1..(n - 1)}
RECURSIVE LeftChain(_, _)
LeftChain(d, k) == IF d = 0 THEN TLeaf(k) ELSE TNode(LeftChain(d - 1, k + 1), TLeaf(k))
RECURSIVE RightChain(_, _)
RightChain(d, k) == IF d = 0 THEN TLeaf(k) ELSE TNode(TLeaf(k), RightChain(d - 1, k + 1))
Bush4(k) == TNode(TNode(TLeaf(k), TLeaf(k + 1)), TNode(TLeaf(k + 2), TLeaf(k + 3)))
RECURSIVE LeftOver(_, _, _)
LeftOver(d, k, bottom) == IF d = 0 THEN bottom ELSE TNode(LeftOver(d - 1, k + 1, bottom), TLeaf(k))
RECURSIVE RightOver(_, _, _)
RightOver(d, k, bottom) == IF d = 0 THEN bottom ELSE TNode(TLeaf(k), RightOver(d - 1, k + 1, bottom))
\* equal leaves: sibling sub-trees with the same commitment
Twins == {TNode(TLeaf(1), TLeaf(1)), TNode(TNode(TLeaf(1), TLeaf(2)), TNode(TLeaf(2), TLeaf(1))), TNode(TLeaf(3), TNode(TLeaf(3), TLeaf(3)))}
MCTrees == UNION {Shapes(n, 1) : n \in 1..MaxLeaves}
           \cup {LeftChain(d, 1) : d \in ChainDepths} \cup {RightChain(d, 1) : d \in ChainDepths}
           \cup {LeftOver(d, 10, Bush4(1)) : d \in {1, 5}} \cup {RightOver(d, 10, Bush4(1)) : d \in {1, 5}}
           \cup Twins
=============================================================================
