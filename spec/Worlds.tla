------------------------------- MODULE Worlds -------------------------------
(***************************************************************************)
(* Structural helpers on ASTs (keys in pre-order, canonical labelling,     *)
(* leaves) and the asset worlds relevant to an AST.                        *)
(***************************************************************************)
EXTENDS MsSpec, SequencesExt

(***************************************************************************)
(* Canonical labelling: keys appear in first-occurrence order 1, 2, 3 ...  *)
(***************************************************************************)
RECURSIVE KeysPre(_)
RECURSIVE KeysPreSeq(_, _)
KeysPreSeq(xs, i) == IF i > Len(xs) THEN <<>> ELSE KeysPre(xs[i]) \o KeysPreSeq(xs, i + 1)
KeysPre(m) ==
  IF m.f \in {"pk_k", "pk_h"} THEN <<m.n>>
  ELSE IF m.f \in {"multi", "multi_a", "sortedmulti", "sortedmulti_a"} THEN m.ks
  ELSE KeysPreSeq(m.xs, 1)

\* first occurrences in order must be 1, 2, 3, ...
RECURSIVE FirstOccOK(_, _, _)
FirstOccOK(ks, i, seen) ==
  IF i > Len(ks) THEN TRUE
  ELSE IF ks[i] <= seen THEN FirstOccOK(ks, i + 1, seen)
  ELSE ks[i] = seen + 1 /\ FirstOccOK(ks, i + 1, seen + 1)
KeyCanonical(m) == FirstOccOK(KeysPre(m), 1, 0)

KeysOf(m) == Range(KeysPre(m))

RECURSIVE LeavesOf(_, _)
\* set of n-parameters of leaves with fragment name in fs
LeavesOf(m, fs) ==
  (IF m.f \in fs THEN {<<m.f, m.n>>} ELSE {})
  \cup UNION {LeavesOf(m.xs[i], fs) : i \in 1..Len(m.xs)}

HashesOf(m) == LeavesOf(m, HashFrags)
AftersOf(m) == {x[2] : x \in LeavesOf(m, {"after"})}
OldersOf(m) == {x[2] : x \in LeavesOf(m, {"older"})}

RECURSIVE NodeCount(_)
RECURSIVE NodeCountSeq(_, _)
NodeCountSeq(xs, i) == IF i > Len(xs) THEN 0 ELSE NodeCount(xs[i]) + NodeCountSeq(xs, i + 1)
NodeCount(m) == 1 + NodeCountSeq(m.xs, 1)

(***************************************************************************)
(* Worlds relevant to an AST.                                              *)
(***************************************************************************)
SeqRec(final, dis, time, v) == [final |-> final, dis |-> dis, time |-> time, v |-> v]
SeqFinal == SeqRec(TRUE, TRUE, TRUE, 65535)
SeqZero  == SeqRec(FALSE, FALSE, FALSE, 0)

\* nLockTime candidates: 0, and for each after(n): n-1 (too early), n+50 (late enough),
\* and one value of the other unit
LockCands(m) ==
  IF AftersOf(m) = {} THEN {0}
  ELSE {0} \cup UNION {{n - 1, n + 50} : n \in AftersOf(m)}
       \cup (IF \E n \in AftersOf(m) : n < LOCKTIME_THRESHOLD THEN {LOCKTIME_THRESHOLD + 1000} ELSE {})
       \cup (IF \E n \in AftersOf(m) : n >= LOCKTIME_THRESHOLD THEN {400000} ELSE {})

SeqCands(m) ==
  (IF AftersOf(m) # {} \/ OldersOf(m) = {} THEN {SeqFinal} ELSE {})
  \cup (IF AftersOf(m) # {} \/ OldersOf(m) # {} THEN {SeqZero} ELSE {})
  \cup UNION {{SeqRec(FALSE, FALSE, (n \div SEQ_TYPE_FLAG) % 2 = 1, (n % 65536) + 5),
               SeqRec(FALSE, FALSE, (n \div SEQ_TYPE_FLAG) % 2 = 1, (n % 65536) - 1),
               SeqRec(FALSE, FALSE, (n \div SEQ_TYPE_FLAG) % 2 = 0, (n % 65536) + 5),
               SeqRec(FALSE, TRUE, (n \div SEQ_TYPE_FLAG) % 2 = 1, (n % 65536) + 5)}
              : n \in OldersOf(m)}

VerCands(m) == IF OldersOf(m) = {} THEN {2} ELSE {1, 2}

Env(rules, std, lock, sq, ver) == [rules |-> rules, std |-> std, lock |-> lock, seq |-> sq, ver |-> ver]

WorldsOfCtx(m, ctx) ==
  {[sigs |-> S, pre |-> P, env |-> Env(RulesOf(ctx), TRUE, l, s, v)] :
     S \in SUBSET KeysOf(m), P \in SUBSET HashesOf(m),
     l \in LockCands(m), s \in SeqCands(m), v \in VerCands(m)}


=============================================================================
