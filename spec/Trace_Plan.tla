------------------------------ MODULE Trace_Plan ------------------------------
(***************************************************************************)
(* C17: spending plans built from real Assets.                             *)
(*   plan exists  <=>  the satisfier with the same assets succeeds         *)
(*   completing the plan gives byte-identical scriptSig / witness          *)
(*   reported locks are sufficient (spend validates in a tx with exactly   *)
(*   those locks) and necessary (fails with value-1, the other unit, a     *)
(*   final sequence for an absolute lock, the disable bit or version 1 for *)
(*   a relative lock) - validation by the TLA+ VM under standardness rules *)
(***************************************************************************)
EXTENDS Validation, Verify, Json, IOUtils

ASSUME TLCSet(1, ndJsonDeserialize(IOEnv.TRACE))
Rec == TLCGet(1)
NB == 64

VARIABLES b, i
Init == b = 0 /\ i = 0
Next == \/ b = 0 /\ b' \in 1..NB /\ i' = 0
        \/ b > 0 /\ i = 0 /\ b' = b /\ i' \in {j \in 1..Len(Rec) : j % NB = b - 1}

Report(prop, clause, ev, j, detail) == PrintT("VERDICT " \o ToJson(<<prop, clause, ev.id, j, detail>>))

JudgeRes(ev, j) ==
  LET r == ev.res[j] IN
  IF r.r = "panic" THEN Report("C11", "plan_panic", ev, j, "")
  ELSE
  /\ (r.plan_exists = r.sat_exists
      \/ Report("C17", IF r.plan_exists THEN "plan_without_satisfaction" ELSE "satisfaction_without_plan", ev, j, r.mode))
  /\ (~r.plan_exists \/
      /\ (r.completes = TRUE \/ Report("C17", "plan_does_not_complete", ev, j, r.mode))
      /\ (r.same_bytes \/ Report("C17", "completed_plan_differs_from_satisfaction", ev, j, r.mode))
      /\ \A q \in 1..Len(r.runs) :
           LET run == r.runs[q]
               w   == [sigs |-> Range(run.w.sigs), pre |-> Range(run.w.pre), env |-> run.w.env]
               inp == IF run.inp.script_same THEN [run.inp EXCEPT !.script = ev.script] ELSE run.inp
               ok  == run.done /\ VerifyInput(inp, EnvOf(w, inp.rules, TRUE))
           IN IF run.variant = "exact"
              THEN ok \/ (/\ Report("C17", "reported_locks_not_sufficient", ev, j,
                                     <<r.mode, r.abs, r.rel, IF run.done THEN VerifyWhy(inp, EnvOf(w, inp.rules, TRUE)) ELSE "not_completed">>)
                           \* the same observation is a C01 violation: a completed plan does not spend in a
                           \* transaction that meets exactly the locks the plan reported
                           /\ Report("C01", "plan_fails_with_reported_locks", ev, j,
                                     <<r.mode, r.abs, r.rel, IF run.done THEN VerifyWhy(inp, EnvOf(w, inp.rules, TRUE)) ELSE "not_completed">>))
              ELSE ~ok \/ Report("C17", "reported_lock_not_necessary", ev, j, <<r.mode, run.variant, r.abs, r.rel>>))

JudgeEvent(ev) == \A j \in 1..Len(ev.res) : JudgeRes(ev, j)

Inv == i > 0 => JudgeEvent(Rec[i])
Post == PrintT("TRACE_DONE " \o ToJson(<<Len(Rec), TLCGet("stats").distinct>>))
=============================================================================
