------------------------------- MODULE Gen_Psbt -------------------------------
(***************************************************************************)
(* C14 history generator.  For every PSBT configuration (descriptors from  *)
(* the catalogue, one per input) and every subset A of the preparation     *)
(* steps (update / add signature / add preimage) with |A| <= MaxPre, every *)
(* permutation of A is followed by a finalize, the remaining steps, and a  *)
(* tail of finalize / finalize-single-input / extract calls (repeated and  *)
(* failing ones included).  Histories reaching the same set state in       *)
(* different orders are what order independence is judged on.              *)
(***************************************************************************)
EXTENDS Worlds, Json, IOUtils, SequencesExt, FiniteSetsExt

CONSTANTS MaxPre, Tier

Pk(k)  == Un("c", Leaf("pk_k", k))
V(x)   == Un("v", x)
DD(ctx, wrap, ast) == [ctx |-> ctx, wrap |-> wrap, ast |-> ast]

Catalogue == <<
  DD("segwitv0", "wsh", Ast("multi", 2, <<1, 2, 3>>, <<>>)),
  DD("tap", "tr", Bin("and_v", V(Pk(1)), Leaf("sha256", 1))),
  DD("legacy", "sh", Bin("or_d", Pk(1), Bin("and_v", V(Pk(2)), Leaf("older", 10)))),
  DD("segwitv0", "shwsh", Bin("and_v", V(Pk(1)), Leaf("after", 100))),
  DD("segwitv0", "wsh", Tern("andor", Pk(1), Leaf("older", 10), Pk(2))),
  DD("tap", "tr", Ast("multi_a", 2, <<1, 2, 3>>, <<>>)),
  DD("segwitv0", "wsh", Thresh(2, <<Pk(1), Un("s", Pk(2)), Un("s", Un("n", Un("d", V(Leaf("older", 10)))))>>)),
  \* not sane (a branch without signature): only the malleable finalizers may succeed on some states
  DD("segwitv0", "wsh", Bin("or_d", Pk(1), Leaf("sha256", 1))),
  \* key-type outputs (the finalizer infers the descriptor from the utxo and the recorded fields)
  DD("legacy", "pkh", Pk(1)),
  DD("segwitv0", "wpkh", Pk(2)),
  DD("segwitv0", "shwpkh", Pk(1)),
  DD("tap", "trkey", Pk(20))
>>

Configs == IF Tier = "quick" THEN {<<1, 2>>, <<3, 4>>, <<5, 6>>, <<8, 2>>, <<9, 10>>, <<11, 12>>, <<4, 3>>, <<10, 9>>}
           ELSE {<<1, 2>>, <<3, 4>>, <<5, 6>>, <<7, 1>>, <<2, 3>>, <<4, 5>>, <<1, 1>>, <<8, 2>>, <<2, 8>>,
                 <<9, 10>>, <<11, 12>>, <<10, 1>>, <<12, 9>>, <<2, 12>>, <<4, 3>>, <<10, 9>>, <<3, 9>>}

TxEnvJ == [lock |-> 150, ver |-> 2, seq |-> [final |-> FALSE, dis |-> FALSE, time |-> FALSE, v |-> 15], rules |-> "legacy", std |-> TRUE]

POp(op, i, k, h, mall) == [op |-> op, i |-> i, k |-> k, h |-> h, mall |-> mall]
NoH == <<"", 0>>

PrepSteps(cfg) ==
  UNION {{POp("update", i, 0, NoH, FALSE)}
         \cup {POp("addsig", i, k, NoH, FALSE) : k \in KeysOf(Catalogue[cfg[i]].ast)}
         \cup {POp("addpre", i, 0, h, FALSE) : h \in HashesOf(Catalogue[cfg[i]].ast)} : i \in 1..Len(cfg)}

OpTail == <<POp("finalize", 0, 0, NoH, FALSE), POp("finalize_inp", 1, 0, NoH, TRUE), POp("extract", 0, 0, NoH, FALSE),
          POp("finalize", 0, 0, NoH, TRUE), POp("finalize_inp", 2, 0, NoH, FALSE), POp("extract", 0, 0, NoH, FALSE),
          POp("finalize", 0, 0, NoH, FALSE)>>

Histories(cfg) ==
  LET S == PrepSteps(cfg)
      rest(A) == SetToSeq(S \ A)
      \* the first finalisation attempt varies with |A| so that every entry point meets
      \* partially prepared inputs
      first(A) == LET c == Cardinality(A) % 4 IN
                  IF c = 0 THEN POp("finalize", 0, 0, NoH, FALSE)
                  ELSE IF c = 1 THEN POp("finalize", 0, 0, NoH, TRUE)
                  ELSE IF c = 2 THEN POp("finalize_inp", 1, 0, NoH, TRUE)
                  ELSE POp("finalize_inp", 2, 0, NoH, TRUE)
  IN UNION {{p \o <<first(A)>> \o rest(A) \o OpTail : p \in SetToSeqs(A)}
            : A \in {B \in SUBSET S : Cardinality(B) <= MaxPre}}

\* other transaction environments (version 1, time-based / final sequence, lock time not reached):
\* the history that prepares everything is replayed under each of them
EnvAlts == {[TxEnvJ EXCEPT !.ver = 1],
            [TxEnvJ EXCEPT !.seq = [final |-> FALSE, dis |-> FALSE, time |-> TRUE, v |-> 15]],
            [TxEnvJ EXCEPT !.seq = [final |-> TRUE, dis |-> TRUE, time |-> TRUE, v |-> 65535]],
            [TxEnvJ EXCEPT !.seq = [final |-> FALSE, dis |-> TRUE, time |-> FALSE, v |-> 15]],
            [TxEnvJ EXCEPT !.lock = 50]}
FullHistory(cfg) == <<POp("finalize", 0, 0, NoH, FALSE)>> \o SetToSeq(PrepSteps(cfg)) \o OpTail

Cases ==
  LET all == UNION {{[inputs |-> [i \in 1..Len(cfg) |-> Catalogue[cfg[i]]], env |-> TxEnvJ, ops |-> h] : h \in Histories(cfg)} : cfg \in Configs}
             \cup {[inputs |-> [i \in 1..Len(cfg) |-> Catalogue[cfg[i]]], env |-> e, ops |-> FullHistory(cfg)] : cfg \in Configs, e \in EnvAlts}
      sq == SetToSeq(all)
  IN [q \in 1..Len(sq) |-> sq[q] @@ [id |-> q]]

ASSUME ndJsonSerialize(IOEnv.OUT, Cases)
ASSUME PrintT("GEN " \o ToJson(<<"histories", Len(Cases)>>))
=============================================================================
