----------------------------- MODULE Trace_Interp -----------------------------
(***************************************************************************)
(* C13: the transaction interpreter against real script execution.         *)
(* One event per (AST, wrapper) with all interpreter runs: the library's   *)
(* own satisfactions (unmodified bytes) and systematic mutations of them   *)
(* under every lock/sequence environment.  For each run TLC executes the   *)
(* same input in the Script VM under CONSENSUS rules:                      *)
(*   accept  => VerifyInput accepts                                        *)
(*   accept  => reported constraints = the VM's executed-path log (as bags)*)
(*   accept  => the constraints satisfy the lifted policy                  *)
(*   library-made non-malleable satisfaction of a sane descriptor accepted *)
(***************************************************************************)
EXTENDS Validation, Verify, Json, IOUtils, Bags

ASSUME TLCSet(1, ndJsonDeserialize(IOEnv.TRACE))
Rec == TLCGet(1)
NB == 64

VARIABLES b, i
Init == b = 0 /\ i = 0
Next == \/ b = 0 /\ b' \in 1..NB /\ i' = 0
        \/ b > 0 /\ i = 0 /\ b' = b /\ i' \in {j \in 1..Len(Rec) : j % NB = b - 1}

Report(prop, clause, ev, j, detail) == PrintT("VERDICT " \o ToJson(<<prop, clause, ev.id, j, detail>>))

RulesOfKind(k) == IF k \in {"bare", "pkh", "sh"} THEN "legacy" ELSE IF k \in {"trkey", "trscript"} THEN "tap" ELSE "segwitv0"

SeqToBag(s) == LET RECURSIVE F(_) F(q) == IF q > Len(s) THEN EmptyBag ELSE SetToBag({s[q]}) (+) F(q + 1) IN F(1)

JudgeRun(ev, j) ==
  LET r   == ev.runs[j]
      w   == [sigs |-> Range(r.w.sigs), pre |-> Range(r.w.pre), env |-> r.w.env]
      rules == RulesOfKind(r.kind)
      inp == [kind |-> r.kind, rules |-> rules, script |-> ev.script, stack |-> r.stack, facts |-> r.facts,
              script_len |-> r.script_len]
      \* the interpreter is given (lock time, sequence) but not the transaction version, and the
      \* property quantifies over what it is given: judge in a version-2 transaction
      env == [EnvOf(w, rules, FALSE) EXCEPT !.ver = 2]
      why == VerifyWhy(inp, env)
      vm  == VerifyRun(inp, env)
      cons == r.res.cons
      \* the world the reported constraints describe
      cw  == [sigs |-> {cons[q].k : q \in {p \in 1..Len(cons) : cons[p].c = "sig"}},
              pre  |-> {<<cons[q].c, cons[q].k>> : q \in {p \in 1..Len(cons) : cons[p].c \in HashFrags}},
              env  |-> env]
  IN
  /\ (r.res.stage # "PANIC" \/ Report("C11", "interpreter_panic", ev, j, r.mut))
  /\ (~r.res.ok \/ r.kind \in {"wpkh", "shwpkh", "pkh", "trkey"} \/
      /\ (why = "" \/ Report("C13", "accepts_invalid_spend", ev, j, <<r.mut, why>>))
      /\ (why # "" \/ SeqToBag(cons) = SeqToBag(vm.log)
          \/ Report("C13", "constraints_differ_from_executed_path", ev, j, <<r.mut, cons, vm.log>>))
      /\ (why # "" \/ ~ev.lift.ok \/ Eval(ev.lift.pol, cw)
          \/ Report("C13", "constraints_do_not_satisfy_policy", ev, j, <<r.mut, cons>>)))
  /\ (~(r.src = "lib" /\ ev.sane /\ r.mode = "nonmall") \/ r.res.ok
      \/ Report("C13", "rejects_library_satisfaction", ev, j, r.res.err))

JudgeEvent(ev) == \A j \in 1..Len(ev.runs) : JudgeRun(ev, j)

Inv == i > 0 => JudgeEvent(Rec[i])
Post == PrintT("TRACE_DONE " \o ToJson(<<Len(Rec), TLCGet("stats").distinct>>))
=============================================================================
