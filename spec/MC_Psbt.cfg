CONSTANTS
  NInputs = 2
  Desc <- c_Desc
  TxEnv <- c_TxEnv
SPECIFICATION Spec
INVARIANTS TypeOK FinalValid ExtractValid SignerFieldsCleared
PROPERTY FinalStable
CHECK_DEADLOCK FALSE
