------------------------------ MODULE Normalize ------------------------------
(***************************************************************************)
(* L2: Semantic::normalized as the implementation computes it              *)
(* (src/policy/semantic.rs): bottom-up; a threshold first normalises its   *)
(* members, drops TRIVIAL / UNSATISFIABLE members while re-basing k and n, *)
(* splices a member that is itself a threshold when both are conjunctions  *)
(* (k = n) or both are disjunctions (k = 1), and finally collapses to      *)
(* TRIVIAL, UNSATISFIABLE, its only member, an and, an or or an m-of-n.    *)
(* Policies are records [p, n, xs] with p = "thresh" for inner nodes.      *)
(*                                                                         *)
(* MC_Normalize checks the algorithm against the truth tables of           *)
(* PolicyAtoms.tla; Trace_Policy compares the real output with it.         *)
(***************************************************************************)
EXTENDS PolicyAtoms

PTrivial == [p |-> "trivial", n |-> 0, xs |-> <<>>]
PUnsat   == [p |-> "unsat", n |-> 0, xs |-> <<>>]
PThresh(k, xs) == [p |-> "thresh", n |-> k, xs |-> xs]

RECURSIVE Splice(_, _, _, _)
\* the member loop: ret_subs after visiting subs[q..]
Splice(subs, q, isAnd, isOr) ==
  IF q > Len(subs) THEN <<>>
  ELSE LET x == subs[q]
           rest == Splice(subs, q + 1, isAnd, isOr)
       IN
       IF x.p \in {"trivial", "unsat"} THEN rest
       ELSE IF x.p = "thresh" THEN
         IF isAnd /\ isOr THEN <<x>> \o rest
         ELSE IF isAnd /\ x.n = Len(x.xs) THEN x.xs \o rest
         ELSE IF isOr /\ ~isAnd /\ x.n = 1 THEN x.xs \o rest
         ELSE <<x>> \o rest
       ELSE <<x>> \o rest

RECURSIVE Norm(_)
Norm(P) ==
  IF P.p # "thresh" THEN P
  ELSE CHOOSE r \in {
         LET nt == Cardinality({q \in 1..Len(subs) : subs[q].p = "trivial"})
             nu == Cardinality({q \in 1..Len(subs) : subs[q].p = "unsat"})
             n  == Len(subs) - nu - nt
             m  == IF P.n >= nt THEN P.n - nt ELSE 0
             isAnd == m = n
             isOr  == m = 1
             ret == Splice(subs, 1, isAnd, isOr)
         IN IF m = 0 THEN PTrivial
            ELSE IF m > Len(ret) THEN PUnsat
            ELSE IF Len(ret) = 1 THEN ret[1]
            ELSE IF isAnd THEN PThresh(Len(ret), ret)
            ELSE IF isOr THEN PThresh(1, ret)
            ELSE PThresh(m, ret)
         : subs \in {[q \in 1..Len(P.xs) |-> Norm(P.xs[q])]}} : TRUE

(***************************************************************************)
(* Semantic::entails: both sides are normalised; constants decide; else    *)
(* the first leaf of the left side is fixed to true and to false on both   *)
(* sides (satisfy_constraint = substitute, then normalise) and both cases  *)
(* must entail.  Every round removes one atom from the left side, so the   *)
(* recursion ends; `fuel` only makes that explicit for TLC.                *)
(***************************************************************************)
RECURSIVE FirstConstraint(_)
FirstConstraint(P) == IF P.p = "thresh" THEN FirstConstraint(P.xs[1]) ELSE P

RECURSIVE Subst(_, _, _)
Subst(P, w, avail) ==
  IF P.p = "thresh" THEN [P EXCEPT !.xs = [q \in 1..Len(P.xs) |-> Subst(P.xs[q], w, avail)]]
  ELSE IF P = w THEN (IF avail THEN PTrivial ELSE PUnsat)
  ELSE P
SatisfyConstraint(P, w, avail) == Norm(Subst(P, w, avail))

RECURSIVE EntailsNorm(_, _, _)
\* a, c already normalised
EntailsNorm(a, c, fuel) ==
  IF a.p = "unsat" THEN TRUE
  ELSE IF a.p = "trivial" THEN c.p = "trivial"
  ELSE IF c.p = "unsat" THEN FALSE
  ELSE IF fuel = 0 THEN FALSE
  ELSE LET w == FirstConstraint(a) IN
       /\ EntailsNorm(SatisfyConstraint(a, w, TRUE), SatisfyConstraint(c, w, TRUE), fuel - 1)
       /\ EntailsNorm(SatisfyConstraint(a, w, FALSE), SatisfyConstraint(c, w, FALSE), fuel - 1)
EntailsAlg(A, C) == EntailsNorm(Norm(A), Norm(C), Cardinality(Atoms(A)) + 1)

(***************************************************************************)
(* at_age / at_lock_time: a lock the given age / time does not imply is    *)
(* replaced by UNSATISFIABLE, then the whole policy is normalised.         *)
(* minimum_n_keys: bottom-up; a key counts 1, any other leaf 0,            *)
(* UNSATISFIABLE has no value; a threshold adds the k smallest values of   *)
(* its members that have one (none if fewer than k do).  Keys are counted  *)
(* per occurrence: the figure is the fewest signatures only when no key    *)
(* occurs twice (MinKeysLemma; the known finding KF-C18-min-keys-          *)
(* duplicates is exactly the other case).                                  *)
(***************************************************************************)
LockImplied(kind, n, v) == IF kind = "older" THEN RelImplied(n, v) ELSE AbsImplied(n, v)
RECURSIVE DropLocks(_, _, _)
DropLocks(P, kind, v) ==
  IF P.p = "thresh" THEN [P EXCEPT !.xs = [q \in 1..Len(P.xs) |-> DropLocks(P.xs[q], kind, v)]]
  ELSE IF P.p = kind /\ ~LockImplied(kind, P.n, v) THEN PUnsat
  ELSE P
AtAgeAlg(P, age) == Norm(DropLocks(P, "older", age))
AtLockTimeAlg(P, t) == Norm(DropLocks(P, "after", t))

RECURSIVE KSmallestSum(_, _)
\* sum of the k smallest members of a bag given as a sequence
KSmallestSum(vals, k) ==
  IF k = 0 THEN 0
  ELSE LET q == CHOOSE a \in 1..Len(vals) : \A c \in 1..Len(vals) : vals[a] <= vals[c]
       IN vals[q] + KSmallestSum(SubSeq(vals, 1, q - 1) \o SubSeq(vals, q + 1, Len(vals)), k - 1)
RECURSIVE MinKeysAlg(_)
\* -1 encodes None
MinKeysAlg(P) ==
  IF P.p = "unsat" THEN -1
  ELSE IF P.p = "key" THEN 1
  ELSE IF P.p # "thresh" THEN 0
  ELSE LET subs == [q \in 1..Len(P.xs) |-> MinKeysAlg(P.xs[q])]
           have == SelectSeq(subs, LAMBDA v : v # -1)
       IN IF Len(have) < P.n THEN -1 ELSE KSmallestSum(have, P.n)
RECURSIVE KeyLeaves(_)
RECURSIVE KeyLeavesSeq(_, _)
KeyLeavesSeq(xs, q) == IF q > Len(xs) THEN <<>> ELSE KeyLeaves(xs[q]) \o KeyLeavesSeq(xs, q + 1)
KeyLeaves(P) == IF P.p = "key" THEN <<P.n>> ELSE IF P.p # "thresh" THEN <<>> ELSE KeyLeavesSeq(P.xs, 1)
NoRepeatedKey(P) == LET ks == KeyLeaves(P) IN \A a, c \in 1..Len(ks) : a # c => ks[a] # ks[c]

\* normal form: no constant below the root
RECURSIVE NoConstInside(_, _)
NoConstInside(P, top) ==
  IF P.p \in {"trivial", "unsat"} THEN top
  ELSE \A q \in 1..Len(P.xs) : NoConstInside(P.xs[q], FALSE)
=============================================================================
