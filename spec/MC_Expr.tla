-------------------------------- MODULE MC_Expr --------------------------------
(* Model check the expression parser model: for every string up to MaxLen over   *)
(* the bracket alphabet, the second pass builds exactly the node count / depth    *)
(* the first pass predicted (the implementation asserts this and would panic).    *)
EXTENDS ExprParser
CONSTANT MaxLen
Alphabet == {"(", ")", "{", "}", ",", "n"}
VARIABLE s
Init == s = <<>>
Next == Len(s) < MaxLen /\ \E ch \in Alphabet : s' = Append(s, ch)
Inv == BuiltEqualsPredicted(s)
\* sanity: acceptance is not vacuous
SomeAccepted == ~(Len(s) = MaxLen /\ Accepts(s))
=============================================================================
