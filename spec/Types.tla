------------------------------- MODULE Types -------------------------------
(***************************************************************************)
(* The complete finite type domain of the library (80 correctness x 12     *)
(* malleability values), as indices 0..959, mapped to the specification's  *)
(* flag sets; the specification's sanity conditions on types.              *)
(***************************************************************************)
EXTENDS MsSpec

NTypes == 960
BaseOf(i)  == <<"B", "K", "V", "W">>[((i \div 240) % 4) + 1]
InputFl(i) == <<{"z"}, {"o"}, {}, {"o", "n"}, {"n"}>>[((i \div 48) % 5) + 1]
DissatFl(i) == <<{"f"}, {"e"}, {}>>[((i \div 4) % 3) + 1]
TyOfIdx(i) ==
  Ty(BaseOf(i), InputFl(i) \cup DissatFl(i)
                \cup If((i \div 24) % 2 = 1, {"d"}) \cup If((i \div 12) % 2 = 1, {"u"})
                \cup If((i \div 2) % 2 = 1, {"s"}) \cup If(i % 2 = 1, {"m"}))

\* the specification's sanity conditions (types that can arise from well-typed fragments)
Sane(t) ==
  /\ ~Has(t, {"z", "o"}) /\ ~Has(t, {"n", "z"})
  /\ ~(t.b = "W" /\ Has(t, {"n"}))
  /\ ~(t.b = "V" /\ Has(t, {"d"}))
  /\ (t.b = "K" => Has(t, {"u"}))
  /\ ~(t.b = "V" /\ Has(t, {"u"}))
  /\ ~Has(t, {"e", "f"})
  /\ (Has(t, {"e"}) => Has(t, {"d"}))
  /\ ~(t.b = "V" /\ Has(t, {"e"}))
  /\ ~Has(t, {"d", "f"})
  /\ (t.b = "V" => Has(t, {"f"}))
  /\ (t.b = "K" => Has(t, {"s"}))
  /\ (Has(t, {"z"}) => Has(t, {"m"}))

SaneIdx == {i \in 0..(NTypes - 1) : Sane(TyOfIdx(i))}

(***************************************************************************)
(* Reachable types: the closure of the leaf types under every rule (with   *)
(* the library's deviation D1, since the library's rules are only ever     *)
(* applied to types the library itself produced).  thresh up to 3 children *)
(* reaches every thresh result type.                                       *)
(***************************************************************************)
LeafTypes == {SpecLeafType(f, "dev") : f \in {"0", "1", "pk_k", "pk_h", "older", "sha256", "multi", "multi_a"}}
UnRuleNames == {"a", "s", "c", "d", "v", "j", "n"}
OkTypes(S) == {t \in S : t.ok}
StepTypes(R) ==
  R \cup OkTypes({SpecUnType(f, x, "dev") : f \in UnRuleNames, x \in R})
    \cup OkTypes({SpecBinType(f, x, y, "dev") : f \in BinFrags, x \in R, y \in R})
    \cup UNION {UNION {OkTypes({SpecAndOrType(x, y, z, "dev") : z \in {q \in R : q.b = y.b}}) : y \in R}
                : x \in {q \in R : q.b = "B" /\ Has(q, {"d", "u"})}}
    \cup LET B1 == {q \in R : q.b = "B" /\ Has(q, {"d", "u"})}
             W1 == {q \in R : q.b = "W" /\ Has(q, {"d", "u"})}
         IN OkTypes({SpecThreshType(k, <<x>>) : k \in {1}, x \in B1})
            \cup OkTypes({SpecThreshType(k, <<x, y>>) : k \in 1..2, x \in B1, y \in W1})
            \cup UNION {UNION {OkTypes({SpecThreshType(k, <<x, y, z>>) : k \in 1..3, z \in W1}) : y \in W1} : x \in B1}
RECURSIVE ReachFix(_)
ReachFix(R) == LET N == StepTypes(R) IN IF N = R THEN R ELSE ReachFix(N)
ReachTypes == ReachFix(LeafTypes)
IdxOfTy(t) == CHOOSE i \in 0..(NTypes - 1) : TyOfIdx(i) = t

Type0 == SpecLeafType("0", "dev")
Type1 == SpecLeafType("1", "dev")

\* the specification's result for a unary rule name (library naming, incl. sugar)
SpecUn(rule, x) ==
  CASE rule = "t" -> SpecBinType("and_v", x, Type1, "dev")
    [] rule = "u" -> SpecBinType("or_i", x, Type0, "dev")
    [] rule = "l" -> SpecBinType("or_i", Type0, x, "dev")
    [] OTHER -> SpecUnType(rule, x, "dev")
=============================================================================
