---- MODULE MC_SatSet_small ----
EXTENDS MC_SatSet
c_HashLeaves == {<<"sha256", 1>>}
c_MultiKs == {<<1, <<1, 2>>>>, <<2, <<1, 2>>>>}
====
