------------------------------ MODULE Decoder ------------------------------
(***************************************************************************)
(* L2: the script decoder (src/miniscript/decode.rs `decode`, after the    *)
(* lexer of Lexer.tla): a push-down automaton that reads the token stream  *)
(* from its END, with a stack of non-terminals still to be recognised      *)
(* (Expression, WExpression, MaybeAndV, the pending wrappers and           *)
(* combinators, ThreshW / ThreshE with their counters, the three EndIf     *)
(* states) and a stack of finished sub-miniscripts; every reduction builds *)
(* a node and type-checks it.  One step per popped non-terminal.  Tokens   *)
(* are records [t, v] (v = number or pushed element).                      *)
(*                                                                         *)
(* MC_Decoder checks against L1, without the library, that                 *)
(* Decode(Lex(Encode(m))) = m for every well-typed non-W fragment, and     *)
(* that whatever the decoder accepts re-encodes to the script it was given *)
(* (instruction-level mutants of every encoding).                          *)
(***************************************************************************)
EXTENDS MsSpec

Tok(t, v) == [t |-> t, v |-> v]
T0(t) == Tok(t, 0)

(***************************************************************************)
(* lexer on L1 instructions (same rules as Lexer.tla, carrying values)     *)
(***************************************************************************)
OpTok == [x \in {"BOOLAND", "BOOLOR", "EQUAL", "NUMEQUAL", "CHECKSIG", "CHECKSIGADD", "CHECKMULTISIG", "CSV", "CLTV",
                 "FROMALTSTACK", "TOALTSTACK", "DROP", "DUP", "ADD", "IF", "IFDUP", "NOTIF", "ELSE", "ENDIF", "0NOTEQUAL",
                 "SIZE", "SWAP", "RIPEMD160", "HASH160", "SHA256", "HASH256"} |-> x]
FusedOps == {"EQUALVERIFY", "NUMEQUALVERIFY", "CHECKSIGVERIFY", "CHECKMULTISIGVERIFY"}
Unfused(o) == CASE o = "EQUALVERIFY" -> "EQUAL" [] o = "NUMEQUALVERIFY" -> "NUMEQUAL"
                [] o = "CHECKSIGVERIFY" -> "CHECKSIG" [] OTHER -> "CHECKMULTISIG"
PushTok(e) ==
  CASE e.t = "e0" -> Tok("Num", 0)
    [] e.t = "num" -> Tok("Num", e.k)
    [] e.t = "key" -> Tok(IF e.q = "c" THEN "Bytes33" ELSE IF e.q = "u" THEN "Bytes65" ELSE "Bytes32", e)
    [] e.t = "kh" -> Tok("Hash20", e)
    [] e.t = "hash" -> Tok(IF e.q \in {"sha256", "hash256"} THEN "Bytes32" ELSE "Hash20", e)
    [] OTHER -> Tok("BadPush", e)
RECURSIVE LexOps(_, _, _)
\* [toks, err]
LexOps(ops, q, acc) ==
  IF q > Len(ops) THEN [toks |-> acc, err |-> ""]
  ELSE LET o == ops[q] IN
    IF o.op = "PUSH" THEN
      (IF PushTok(o.e).t = "BadPush" THEN [toks |-> acc, err |-> "InvalidInt"] ELSE LexOps(ops, q + 1, Append(acc, PushTok(o.e))))
    ELSE IF o.op \in FusedOps THEN LexOps(ops, q + 1, acc \o <<T0(Unfused(o.op)), T0("VERIFY")>>)
    ELSE IF o.op = "VERIFY" THEN
      (IF acc # <<>> /\ acc[Len(acc)].t \in {"EQUAL", "NUMEQUAL", "CHECKSIG", "CHECKMULTISIG"}
       THEN [toks |-> acc, err |-> "NonMinimalVerify"] ELSE LexOps(ops, q + 1, Append(acc, T0("VERIFY"))))
    ELSE IF o.op \in DOMAIN OpTok THEN LexOps(ops, q + 1, Append(acc, T0(o.op)))
    ELSE [toks |-> acc, err |-> "InvalidOpcode"]

(***************************************************************************)
(* the automaton                                                           *)
(***************************************************************************)
NT(n) == [n |-> n, k |-> 0, c |-> 0]
NTh(n, k, c) == [n |-> n, k |-> k, c |-> c]
DSt(toks, nt, tm, err) == [toks |-> toks, nt |-> nt, tm |-> tm, err |-> err]
DFail(s, why) == [s EXCEPT !.err = why]

\* token stream is consumed from the end
HasTok(s) == s.toks # <<>>
Peek(s) == s.toks[Len(s.toks)]
Drop1(s) == [s EXCEPT !.toks = SubSeq(s.toks, 1, Len(s.toks) - 1)]
PushNT(s, ns) == [s EXCEPT !.nt = s.nt \o ns]          \* ns in push order (last = next to pop)
PushTm(s, m) == [s EXCEPT !.tm = Append(s.tm, m)]
\* expect the token kinds ks (in consumption order); result: state after, or failure
RECURSIVE Expect(_, _, _)
Expect(s, ks, q) ==
  IF q > Len(ks) THEN s
  ELSE IF ~HasTok(s) THEN DFail(s, "UnexpectedStart")
  ELSE IF Peek(s).t = ks[q][1] /\ (ks[q][2] = -1 \/ Peek(s).v = ks[q][2]) THEN Expect(Drop1(s), ks, q + 1)
  ELSE DFail(s, "Unexpected")
K1(t) == <<t, -1>>
Num32 == <<"Num", 32>>

\* type check of a freshly built node (Miniscript::from_ast): the library's typing and the
\* fragments its context admits
NodeOk(m, ctx) == TypeOfDev(m, ctx).ok
\* reduce: pop n finished sub-miniscripts (top first), build, check, push
Reduce1(s, f, ctx) ==
  LET x == s.tm[Len(s.tm)]
      m == Un(f, x)
  IN IF NodeOk(m, ctx) THEN [s EXCEPT !.tm = Append(SubSeq(s.tm, 1, Len(s.tm) - 1), m)] ELSE DFail(s, "TypeCheck")
Reduce2(s, f, ctx) ==
  \* left = first popped, right = second popped: wrap(left, right)
  LET l == s.tm[Len(s.tm)]
      r == s.tm[Len(s.tm) - 1]
      m == Bin(f, l, r)
  IN IF NodeOk(m, ctx) THEN [s EXCEPT !.tm = Append(SubSeq(s.tm, 1, Len(s.tm) - 2), m)] ELSE DFail(s, "TypeCheck")
PushLeaf(s, m, ctx) == IF NodeOk(m, ctx) THEN PushTm(s, m) ELSE DFail(s, "TypeCheck")

IsAndV(s) == HasTok(s) /\ Peek(s).t \notin {"IF", "NOTIF", "ELSE", "TOALTSTACK", "SWAP"}

\* the hash fragment named by a hash opcode
HashFrag(op) == CASE op = "SHA256" -> "sha256" [] op = "HASH256" -> "hash256" [] op = "RIPEMD160" -> "ripemd160" [] OTHER -> "hash160"
\* <hashop> VERIFY EQUAL 32 SIZE after the digest has been read; digest token d
HashTail(s, d, ctx, verify) ==
  IF ~HasTok(s) THEN DFail(s, "UnexpectedStart")
  ELSE LET op == Peek(s).t
           okOps == IF d.t = "Bytes32" THEN {"SHA256", "HASH256"} ELSE {"RIPEMD160", "HASH160"}
       IN IF op \notin okOps THEN DFail(s, "Unexpected")
          ELSE LET s2 == Expect(Drop1(s), <<K1("VERIFY"), K1("EQUAL"), Num32, K1("SIZE")>>, 1)
                   leaf == Leaf(HashFrag(op), d.v.k)
               IN IF s2.err # "" THEN s2
                  ELSE IF d.v.t # "hash" \/ d.v.q # HashFrag(op) THEN DFail(s2, "DigestOfOtherKind")
                  ELSE PushLeaf(IF verify THEN PushNT(s2, <<NT("Verify")>>) ELSE s2, leaf, ctx)

RECURSIVE ReadMultiKeys(_, _, _)
\* n keys (Bytes33 / Bytes65) read from the end; returns [s, ks] with ks in script order
ReadMultiKeys(s, n, acc) ==
  IF n = 0 THEN [s |-> s, ks |-> acc]
  ELSE IF ~HasTok(s) THEN [s |-> DFail(s, "UnexpectedStart"), ks |-> acc]
  ELSE IF Peek(s).t \in {"Bytes33", "Bytes65"} THEN ReadMultiKeys(Drop1(s), n - 1, <<Peek(s).v.k>> \o acc)
  ELSE [s |-> DFail(s, "Unexpected"), ks |-> acc]
RECURSIVE ReadAddKeys(_, _)
\* CHECKSIGADD <key32> pairs while the next token is CHECKSIGADD
ReadAddKeys(s, acc) ==
  IF HasTok(s) /\ Peek(s).t = "CHECKSIGADD"
  THEN LET s1 == Drop1(s) IN
       IF ~HasTok(s1) THEN [s |-> DFail(s1, "UnexpectedStart"), ks |-> acc]
       ELSE IF Peek(s1).t = "Bytes32" THEN ReadAddKeys(Drop1(s1), <<Peek(s1).v.k>> \o acc)
       ELSE [s |-> DFail(s1, "Unexpected"), ks |-> acc]
  ELSE [s |-> s, ks |-> acc]

\* the Expression non-terminal
Expression(s0, ctx) ==
  IF ~HasTok(s0) THEN DFail(s0, "UnexpectedStart")
  ELSE LET t == Peek(s0)  s == Drop1(s0) IN
  CASE t.t \in {"Bytes33", "Bytes65", "Bytes32"} ->
         IF t.v.t = "key" THEN PushLeaf(s, Leaf("pk_k", t.v.k), ctx) ELSE DFail(s, "NotAKey")
    [] t.t = "CHECKSIG" -> PushNT(s, <<NT("Check"), NT("Expression")>>)
    [] t.t = "VERIFY" ->
         IF HasTok(s) /\ Peek(s).t = "EQUAL"
         THEN LET s1 == Drop1(s) IN
              IF ~HasTok(s1) THEN DFail(s1, "UnexpectedStart")
              ELSE LET d == Peek(s1)  s2 == Drop1(s1) IN
                CASE d.t = "Hash20" ->
                       IF ~HasTok(s2) THEN DFail(s2, "UnexpectedStart")
                       ELSE IF Peek(s2).t = "HASH160" THEN
                            LET s3 == Drop1(s2) IN
                            IF ~HasTok(s3) THEN DFail(s3, "UnexpectedStart")
                            ELSE IF Peek(s3).t = "DUP" THEN
                                 (IF d.v.t = "kh" THEN PushLeaf(Drop1(s3), Leaf("pk_h", d.v.k), ctx) ELSE DFail(s3, "NotAKeyHash"))
                            ELSE HashTail(s2, d, ctx, TRUE)
                       ELSE HashTail(s2, d, ctx, TRUE)
                  [] d.t = "Bytes32" -> HashTail(s2, d, ctx, TRUE)
                  [] d.t = "Num" -> PushNT(s2, <<NT("Verify"), NTh("ThreshW", d.v, 0)>>)
                  [] OTHER -> DFail(s2, "Unexpected")
         ELSE PushNT(s, <<NT("Verify"), NT("Expression")>>)
    [] t.t = "0NOTEQUAL" -> PushNT(s, <<NT("ZeroNotEqual"), NT("Expression")>>)
    [] t.t = "CSV" -> IF HasTok(s) /\ Peek(s).t = "Num" THEN PushLeaf(Drop1(s), Leaf("older", Peek(s).v), ctx) ELSE DFail(s, "Unexpected")
    [] t.t = "CLTV" -> IF HasTok(s) /\ Peek(s).t = "Num" THEN PushLeaf(Drop1(s), Leaf("after", Peek(s).v), ctx) ELSE DFail(s, "Unexpected")
    [] t.t = "EQUAL" ->
         IF ~HasTok(s) THEN DFail(s, "UnexpectedStart")
         ELSE LET d == Peek(s)  s1 == Drop1(s) IN
           CASE d.t \in {"Bytes32", "Hash20"} -> HashTail(s1, d, ctx, FALSE)
             [] d.t = "Num" -> PushNT(s1, <<NTh("ThreshW", d.v, 0)>>)
             [] OTHER -> DFail(s1, "Unexpected")
    [] t.t = "Num" /\ t.v = 0 -> PushLeaf(s, Leaf("0", 0), ctx)
    [] t.t = "Num" /\ t.v = 1 -> PushLeaf(s, Leaf("1", 0), ctx)
    [] t.t = "ENDIF" -> PushNT(s, <<NT("EndIf"), NT("MaybeAndV"), NT("Expression")>>)
    [] t.t = "BOOLAND" -> PushNT(s, <<NT("AndB"), NT("Expression"), NT("WExpression")>>)
    [] t.t = "BOOLOR" -> PushNT(s, <<NT("OrB"), NT("Expression"), NT("WExpression")>>)
    [] t.t = "CHECKMULTISIG" ->
         IF ~(HasTok(s) /\ Peek(s).t = "Num") THEN DFail(s, "Unexpected")
         ELSE LET n == Peek(s).v IN
              IF n < 1 \/ n > 20 THEN DFail(s, "Threshold")
              ELSE LET r == ReadMultiKeys(Drop1(s), n, <<>>) IN
                   IF r.s.err # "" THEN r.s
                   ELSE IF ~(HasTok(r.s) /\ Peek(r.s).t = "Num") THEN DFail(r.s, "Unexpected")
                   ELSE LET k == Peek(r.s).v IN
                        IF k < 1 \/ k > n THEN DFail(r.s, "Threshold")
                        ELSE PushLeaf(Drop1(r.s), Ast("multi", k, r.ks, <<>>), ctx)
    [] t.t = "NUMEQUAL" ->
         IF ~(HasTok(s) /\ Peek(s).t = "Num") THEN DFail(s, "Unexpected")
         ELSE LET k == Peek(s).v IN
              IF k < 1 THEN DFail(s, "Threshold")
              ELSE LET r == ReadAddKeys(Drop1(s), <<>>) IN
                   IF r.s.err # "" THEN r.s
                   ELSE LET s2 == Expect(r.s, <<K1("CHECKSIG")>>, 1) IN
                        IF s2.err # "" THEN s2
                        ELSE IF ~(HasTok(s2) /\ Peek(s2).t = "Bytes32") THEN DFail(s2, "Unexpected")
                        ELSE LET ks == <<Peek(s2).v.k>> \o r.ks IN
                             IF k > Len(ks) THEN DFail(s2, "Threshold")
                             ELSE PushLeaf(Drop1(s2), Ast("multi_a", k, ks, <<>>), ctx)
    [] OTHER -> DFail(s, "Unexpected")

\* one step: pop a non-terminal and act
DStep(s, ctx) ==
  LET top == s.nt[Len(s.nt)]
      s1 == [s EXCEPT !.nt = SubSeq(s.nt, 1, Len(s.nt) - 1)]
      n == top.n
  IN
  CASE n = "Expression" -> Expression(s1, ctx)
    [] n = "MaybeAndV" -> IF IsAndV(s1) THEN PushNT(s1, <<NT("AndV"), NT("Expression")>>) ELSE s1
    [] n = "Swap" -> LET s2 == Expect(s1, <<K1("SWAP")>>, 1) IN IF s2.err # "" THEN s2 ELSE Reduce1(s2, "s", ctx)
    [] n = "Alt" -> LET s2 == Expect(s1, <<K1("TOALTSTACK")>>, 1) IN IF s2.err # "" THEN s2 ELSE Reduce1(s2, "a", ctx)
    [] n = "Check" -> Reduce1(s1, "c", ctx)
    [] n = "DupIf" -> Reduce1(s1, "d", ctx)
    [] n = "Verify" -> Reduce1(s1, "v", ctx)
    [] n = "NonZero" -> Reduce1(s1, "j", ctx)
    [] n = "ZeroNotEqual" -> Reduce1(s1, "n", ctx)
    [] n = "AndV" -> IF IsAndV(s1) THEN PushNT(s1, <<NT("AndV"), NT("MaybeAndV")>>) ELSE Reduce2(s1, "and_v", ctx)
    [] n = "AndB" -> Reduce2(s1, "and_b", ctx)
    [] n = "OrB" -> Reduce2(s1, "or_b", ctx)
    [] n = "OrC" -> Reduce2(s1, "or_c", ctx)
    [] n = "OrD" -> Reduce2(s1, "or_d", ctx)
    [] n = "OrI" -> Reduce2(s1, "or_i", ctx)
    [] n = "Tern" ->
         LET a == s1.tm[Len(s1.tm)]  b == s1.tm[Len(s1.tm) - 1]  c == s1.tm[Len(s1.tm) - 2]
             m == Tern("andor", a, c, b)
         IN IF NodeOk(m, ctx) THEN [s1 EXCEPT !.tm = Append(SubSeq(s1.tm, 1, Len(s1.tm) - 3), m)] ELSE DFail(s1, "TypeCheck")
    [] n = "ThreshW" ->
         IF ~HasTok(s1) THEN DFail(s1, "UnexpectedStart")
         ELSE IF Peek(s1).t = "ADD" THEN PushNT(Drop1(s1), <<NTh("ThreshW", top.k, top.c + 1), NT("WExpression")>>)
         ELSE PushNT(s1, <<NTh("ThreshE", top.k, top.c + 1), NT("Expression")>>)
    [] n = "ThreshE" ->
         \* pop c sub-miniscripts, first popped = first member
         LET c == top.c
             subs == [q \in 1..c |-> s1.tm[Len(s1.tm) - q + 1]]
             m == Thresh(top.k, subs)
         IN IF top.k < 1 \/ top.k > c THEN DFail(s1, "Threshold")
            ELSE IF NodeOk(m, ctx) THEN [s1 EXCEPT !.tm = Append(SubSeq(s1.tm, 1, Len(s1.tm) - c), m)] ELSE DFail(s1, "TypeCheck")
    [] n = "EndIf" ->
         IF ~HasTok(s1) THEN DFail(s1, "UnexpectedStart")
         ELSE LET t == Peek(s1).t  s2 == Drop1(s1) IN
           CASE t = "ELSE" -> PushNT(s2, <<NT("EndIfElse"), NT("MaybeAndV"), NT("Expression")>>)
             [] t = "IF" ->
                  IF ~HasTok(s2) THEN DFail(s2, "UnexpectedStart")
                  ELSE IF Peek(s2).t = "DUP" THEN PushNT(Drop1(s2), <<NT("DupIf")>>)
                  ELSE LET s3 == Expect(s2, <<K1("0NOTEQUAL"), K1("SIZE")>>, 1) IN
                       IF s3.err # "" THEN s3 ELSE PushNT(s3, <<NT("NonZero")>>)
             [] t = "NOTIF" -> PushNT(s2, <<NT("EndIfNotIf")>>)
             [] OTHER -> DFail(s2, "Unexpected")
    [] n = "EndIfNotIf" ->
         IF ~HasTok(s1) THEN DFail(s1, "UnexpectedStart")
         ELSE IF Peek(s1).t = "IFDUP" THEN PushNT(Drop1(s1), <<NT("OrD"), NT("Expression")>>)
         ELSE PushNT(s1, <<NT("OrC"), NT("Expression")>>)
    [] n = "EndIfElse" ->
         IF ~HasTok(s1) THEN DFail(s1, "UnexpectedStart")
         ELSE LET t == Peek(s1).t  s2 == Drop1(s1) IN
           CASE t = "IF" -> Reduce2(s2, "or_i", ctx)
             [] t = "NOTIF" -> PushNT(s2, <<NT("Tern"), NT("Expression")>>)
             [] OTHER -> DFail(s2, "Unexpected")
    [] n = "WExpression" ->
         IF ~HasTok(s1) THEN DFail(s1, "UnexpectedStart")
         ELSE IF Peek(s1).t = "FROMALTSTACK"
              THEN PushNT(Drop1(s1), <<NT("Alt"), NT("MaybeAndV"), NT("Expression")>>)
              ELSE PushNT(s1, <<NT("Swap"), NT("MaybeAndV"), NT("Expression")>>)
    [] OTHER -> DFail(s1, "BadNonTerminal")

RECURSIVE DRun(_, _)
DRun(s, ctx) == IF s.err # "" \/ s.nt = <<>> THEN s ELSE DRun(DStep(s, ctx), ctx)

\* decode a token stream: [ok, ast, err]
DecodeToks(toks, ctx) ==
  LET r == DRun(DSt(toks, <<NT("MaybeAndV"), NT("Expression")>>, <<>>, ""), ctx) IN
  IF r.err # "" THEN [ok |-> FALSE, ast |-> Leaf("0", 0), err |-> r.err]
  ELSE IF r.toks # <<>> THEN [ok |-> FALSE, ast |-> Leaf("0", 0), err |-> "Trailing"]
  ELSE [ok |-> TRUE, ast |-> r.tm[1], err |-> ""]
DecodeOps(ops, ctx) ==
  LET l == LexOps(ops, 1, <<>>) IN
  IF l.err # "" THEN [ok |-> FALSE, ast |-> Leaf("0", 0), err |-> l.err] ELSE DecodeToks(l.toks, ctx)
=============================================================================
