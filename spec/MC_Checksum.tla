------------------------------ MODULE MC_Checksum ------------------------------
(***************************************************************************)
(* Model check the error-detection claim of C10 on the BIP380 code itself: *)
(* for the base strings below, every substitution of one or two characters *)
(* (payload characters over the whole 95-character set, checksum           *)
(* characters over the 32-character set) and every substitution of up to   *)
(* MaxGroup characters that stays inside group 0 (digits, punctuation,     *)
(* a-h; replacement characters from GroupAlphabet) yields an invalid       *)
(* string.  The state machine adds one substitution per step, positions    *)
(* increasing.                                                             *)
(***************************************************************************)
EXTENDS Checksum, SequencesExt

CONSTANTS PayloadCodes,  \* replacement characters tried at payload positions (0..94 = all)
          NBases,        \* how many of the base strings to explore
          MaxSubs,       \* 2: arbitrary substitutions
          MaxGroup,      \* up to this many substitutions inside group 0
          GroupAlphabet  \* replacement codes used for the in-group errors beyond MaxSubs

\* base payloads (codes in INPUT_CHARSET): "wsh(pk(a))", "sh(e:0)", "tr(0a1b,{c,d})" style
\* strings made only of group-0 characters so that in-group errors apply, plus one with
\* characters of all three groups
Bases == << <<15, 1, 16, 10, 12, 18, 10, 17, 11, 11>>,
            <<0, 17, 10, 21, 27, 0, 11, 14, 30, 31>>,
            <<74, 25, 10, 76, 27, 0, 11>>,
            <<34, 70, 50, 10, 81, 82, 11, 3>> >>

AllCodes == 0..94
VARIABLES bi, subs      \* base index, sequence of [p |-> position, c |-> new code]

\* payload ++ 8 checksum symbols, computed once at start-up
ASSUME TLCSet(7, [q \in 1..Len(Bases) |-> Bases[q] \o Checksum(Bases[q])])
Full(q) == TLCGet(7)[q]
NP(q) == Len(Bases[q])

Apply(q, ss) ==
  LET f == Full(q) IN [p \in 1..Len(f) |-> IF \E x \in 1..Len(ss) : ss[x].p = p
                                           THEN (CHOOSE x \in 1..Len(ss) : ss[x].p = p) ELSE 0]
Corrupt(q, ss) ==
  LET f == Full(q) idx == Apply(q, ss) IN [p \in 1..Len(f) |-> IF idx[p] = 0 THEN f[p] ELSE ss[idx[p]].c]

InGroup0(q, ss) == \A x \in 1..Len(ss) : ss[x].p <= NP(q) /\ ss[x].c < 32 /\ Bases[q][ss[x].p] < 32

Init == bi \in 1..NBases /\ subs = <<>>

Codes(q, p) == IF p <= NP(q) THEN PayloadCodes ELSE 0..31

Next ==
  /\ bi' = bi
  /\ \E p \in 1..(NP(bi) + 8) :
       /\ p > (IF subs = <<>> THEN 0 ELSE subs[Len(subs)].p)
       /\ \E c \in Codes(bi, p) :
            /\ c # Full(bi)[p]
            /\ subs' = Append(subs, [p |-> p, c |-> c])
            /\ (IF Len(subs') <= MaxSubs THEN TRUE
                ELSE Len(subs') <= MaxGroup /\ InGroup0(bi, subs') /\ c \in GroupAlphabet)

Detected ==
  subs = <<>> \/
  \A s \in {Corrupt(bi, subs)} : ~Valid(SubSeq(s, 1, NP(bi)), SubSeq(s, NP(bi) + 1, NP(bi) + 8))
=============================================================================
