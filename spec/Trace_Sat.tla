------------------------------ MODULE Trace_Sat ------------------------------
(***************************************************************************)
(* Trace validation of the satisfier pipeline.  Every record is one        *)
(* (AST, wrapper) with everything the real library answered for every      *)
(* world / mode / route; TLC judges each answer against L1.                *)
(*   C01  returned satisfaction => VerifyInput accepts under std rules     *)
(*   C02  "no satisfaction" => SatSet is empty (malleable) / ... (sane)    *)
(*   C09  static figures >= what the VM measures / the size model says     *)
(* Bag shape: records are fanned out over TLC workers (two-level Next).    *)
(***************************************************************************)
EXTENDS Verify, Satisfier, ExtData, PlanSize, Json, IOUtils, SequencesExt, FiniteSetsExt

ASSUME TLCSet(1, ndJsonDeserialize(IOEnv.TRACE))
Rec == TLCGet(1)
NB == 64

VARIABLES b, i
Init == b = 0 /\ i = 0
Next == \/ b = 0 /\ b' \in 1..NB /\ i' = 0
        \/ b > 0 /\ i = 0 /\ b' = b /\ i' \in {j \in 1..Len(Rec) : j % NB = b - 1}

World(wj) == [sigs |-> Range(wj.sigs), pre |-> Range(wj.pre), env |-> wj.env]

Report(prop, clause, ev, j, detail) ==
  PrintT("VERDICT " \o ToJson(<<prop, clause, ev.id, j, detail>>))

HashesIn(m) ==
  LET RECURSIVE H(_)
      H(x) == (IF x.f \in HashFrags THEN {<<x.f, x.n>>} ELSE {})
              \cup UNION {H(x.xs[q]) : q \in 1..Len(x.xs)}
  IN H(m)

\* L2 conformance: the satisfier algorithm of Satisfier.tla predicts the exact answer of
\* get_satisfaction / get_satisfaction_mall.  A difference is DRIFT (the properties are judged
\* against L1 below), reported so that a change of the chooser never goes unnoticed.
L2Agrees(ev, j) ==
  LET r == ev.res[j]
      w == World(r.w)
      p == LSat(ev.ast, w, ev.ctx, r.mode = "mall")
  IN
  r.route # "desc" \/ r.r = "panic"
  \/ (IF r.r = "ok" THEN p.k = "st" /\ p.w = r.inp.stack ELSE p.k # "st")
  \/ Report("INFO", "drift_l2_satisfier", ev, j, <<r.mode, r.r, p.k, p.w>>)

\* judge result j of event ev; always TRUE (verdicts are printed)
JudgeRes(ev, j) ==
  LET r   == ev.res[j]
      w   == World(r.w)
      ctx == ev.ctx
      sane == ev.st.ms.sane
  IN
  IF r.r = "panic" THEN Report("C11", "panic", ev, j, r.msg)
  ELSE IF r.r = "ok" THEN
    LET inp == IF r.inp.script_same THEN [r.inp EXCEPT !.script = ev.st.script] ELSE r.inp
        env == EnvOf(w, inp.rules, TRUE)
        why == VerifyWhy(inp, env)
        vm  == VerifyRun(inp, env)
        sd  == ev.st.ms.sat
        segwit == inp.rules \in {"segwitv0", "tap"}
    IN
    /\ (why = "" \/ Report("C01", "vm_reject", ev, j, why))
    /\ (why # "" \/
        /\ (sd.some \/ Report("C09", "no_sat_data_but_satisfied", ev, j, ""))
        /\ (~sd.some \/
            /\ (Len(inp.stack) <= sd.wit_count \/ Report("C09", "wit_count", ev, j, <<Len(inp.stack), sd.wit_count>>))
            /\ (IF segwit
                THEN (WitBytes(inp.stack, 1, inp.rules) <= sd.wit_size
                      \/ Report("C09", "wit_size", ev, j, <<WitBytes(inp.stack, 1, inp.rules), sd.wit_size>>))
                ELSE (SsigBytes(inp.stack, 1, inp.rules) <= sd.ssig_size
                      \/ Report("C09", "ssig_size", ev, j, <<SsigBytes(inp.stack, 1, inp.rules), sd.ssig_size>>)))
            /\ (inp.rules = "tap" \/ vm.ops <= ev.st.ms.static_ops + sd.exec_ops
                \/ Report("C09", "op_count", ev, j, <<vm.ops, ev.st.ms.static_ops + sd.exec_ops>>))
            \* the stack-depth figure is only promised as a *limit* (second sentence of C09):
            \* a script declared within limits must stay <= 1000; the figure itself being
            \* tight is not demanded, so a smaller figure is drift, not a violation
            /\ (vm.maxd <= sd.wit_count + sd.exec_stack
                \/ Report("INFO", "drift_exec_stack", ev, j, <<vm.maxd, sd.wit_count + sd.exec_stack>>))
            /\ (~ev.st.ms.within_limits \/ vm.maxd <= 1000
                \/ Report("C09", "stack_limit", ev, j, vm.maxd))
            /\ (~ev.st.ms.within_limits \/ inp.rules = "tap" \/ vm.ops <= 201
                \/ Report("C09", "ops_limit", ev, j, vm.ops)))
        /\ (ev.st.max_weight < 0 \/ r.real_weight <= ev.st.max_weight
            \/ Report("C09", "max_weight", ev, j, <<r.real_weight, ev.st.max_weight>>))
        /\ (inp.script_len = ev.st.ms.script_size
            \/ Report("C09", "script_size", ev, j, <<inp.script_len, ev.st.ms.script_size>>))
        \* L2 conformance: the announced sizes are the sums PlanSize.tla computes over the stack
        /\ ("plan" \notin DOMAIN r \/
            (r.plan.wit_size = PlanWitnessSize(inp.stack, ev.wrap, ev.st.ms.script_size, 0)
             /\ r.plan.ssig_size = PlanScriptSigSize(inp.stack, ev.wrap, ev.st.ms.script_size)
             /\ r.plan.weight = PlanWeight(inp.stack, ev.wrap, ev.st.ms.script_size, 0))
            \/ Report("INFO", "drift_l2_plansize", ev, j,
                       <<ev.wrap, r.plan.wit_size, PlanWitnessSize(inp.stack, ev.wrap, ev.st.ms.script_size, 0),
                         r.plan.ssig_size, PlanScriptSigSize(inp.stack, ev.wrap, ev.st.ms.script_size)>>))
        /\ ("plan" \notin DOMAIN r \/
            /\ (~segwit \/ r.plan.wit_size >= r.real_wit_bytes + 1 \/ Report("C09", "plan_wit_size", ev, j, <<r.real_wit_bytes + 1, r.plan.wit_size>>))
            /\ (r.plan.ssig_size >= r.real_ssig_bytes + 1 \/ Report("C09", "plan_ssig_size", ev, j, <<r.real_ssig_bytes + 1, r.plan.ssig_size>>))))
  ELSE \* "none"
    LET S == SatSet(ev.ast, w, ctx) IN
    IF r.mode = "mall"
    THEN (S = {} \/ Report("C02", "missed_mall", ev, j, r.route))
    ELSE (~(sane /\ HashesIn(ev.ast) \subseteq w.pre /\ S # {})
          \/ Report("C02", "missed_nonmall", ev, j, r.route))

\* L2 conformance: the static figures of ExtData.tla (checked against the satisfier model and
\* Encode by MC_ExtData) are, field by field, the figures the library reports.  Drift, as above.
SameData(d, lib) ==
  d.some = lib.some /\ (~d.some \/ (d.c = lib.wit_count /\ d.w = lib.wit_size /\ d.s = lib.ssig_size
                                   /\ d.x = lib.exec_stack /\ d.o = lib.exec_ops))
L2Figures(ev) ==
  \A e \in {Ext(ev.ast, ev.ctx)} :
    (e.pk = ev.st.ms.pk_cost /\ e.ops = ev.st.ms.static_ops /\ SameData(e.sat, ev.st.ms.sat) /\ SameData(e.dis, ev.st.ms.dissat))
    \/ Report("INFO", "drift_l2_extdata", ev, 0, <<e.pk, e.ops, e.sat, e.dis>>)
L2Weight(ev) ==
  \A mw \in {DescMaxWeight(ev.wrap, ev.ast, ev.ctx, 0)} :
    ev.st.max_weight = mw \/ Report("INFO", "drift_l2_max_weight", ev, 0, <<ev.wrap, ev.st.max_weight, mw>>)

JudgeEvent(ev) ==
  IF ev.parse # "ok"
  THEN Report("INFO", "parse_" \o ev.parse, ev, 0, ev.msg)
  ELSE L2Figures(ev) /\ L2Weight(ev) /\ \A j \in 1..Len(ev.res) : JudgeRes(ev, j) /\ L2Agrees(ev, j)

Inv == i > 0 => JudgeEvent(Rec[i])

Post == PrintT("TRACE_DONE " \o ToJson(<<Len(Rec), TLCGet("stats").distinct>>))
=============================================================================
