----------------------------- MODULE TapBuilderSM -----------------------------
(* TapBuilder.tla as a state machine: one step per token of the pre-order traversal *)
EXTENDS TapBuilder

(***************************************************************************)
(* as a state machine                                                      *)
(***************************************************************************)
CONSTANT TreeSet
VARIABLES tree, todo, st
bvars == <<tree, todo, st>>

TInit == tree \in TreeSet /\ todo = PreOrder(tree) /\ st = BInit
TNext == /\ todo # <<>>
         /\ st' = BStep(st, Head(todo))
         /\ todo' = Tail(todo)
         /\ tree' = tree

Finished == todo = <<>>
\* the builder is correct
BuilderCorrect ==
  Finished => IF Height(tree) > MAX_NODES THEN st.err
              ELSE ~st.err /\ st.leaves = DepthList(tree) /\ st.h = 0 /\ st.complete = {} /\ ~st.c128
\* heights recorded never exceed the limit and the bitmap stays below the current height
BuilderInv == st.err \/ (st.h <= MAX_NODES /\ \A x \in st.complete : x <= st.h /\ x >= 1 /\ x < MAX_NODES)
=============================================================================
