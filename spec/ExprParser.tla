------------------------------ MODULE ExprParser ------------------------------
(***************************************************************************)
(* L2: the two-pass expression-tree parser (src/expression/mod.rs) as an   *)
(* explicit state machine over the characters of the input.                *)
(*   pass 1 (parse_pre_check): a stack of open brackets, node counter,     *)
(*           maximum depth; rejects mismatched / unbalanced brackets,      *)
(*           characters after a closing bracket other than , ) }, commas   *)
(*           outside any bracket, and depth > MaxDepth                     *)
(*   pass 2 (from_str_inner): builds the pre-order node list; the code     *)
(*           asserts that exactly the predicted number of nodes and depth  *)
(*           were used - here the invariant BuiltEqualsPredicted           *)
(* Characters are abstracted to classes: "(" ")" "{" "}" "," and "n" (any  *)
(* name character).  The checksum / character-set step is outside.         *)
(***************************************************************************)
EXTENDS Integers, Sequences, FiniteSets, TLC

MaxDepth == 402

Opens  == {"(", "{"}
Closes == {")", "}"}
Match(o, c) == (o = "(" /\ c = ")") \/ (o = "{" /\ c = "}")

\* pass 1 as a fold: state [pos, stack, nodes, maxd, err]
P1Init == [pos |-> 1, stack |-> <<>>, nodes |-> 1, maxd |-> 0, err |-> ""]

P1Step(st, s) ==
  LET ch == s[st.pos]
      n  == Len(s)
      adv(x) == [x EXCEPT !.pos = st.pos + 1]
  IN
  IF ch \in Opens THEN
    LET stk == Append(st.stack, ch) IN
    adv([st EXCEPT !.stack = stk, !.maxd = IF Len(stk) > st.maxd THEN Len(stk) ELSE st.maxd])
  ELSE IF ch \in Closes THEN
    IF st.stack = <<>> THEN [st EXCEPT !.err = "UnmatchedCloseParen"]
    ELSE LET o == st.stack[Len(st.stack)]
             rest == SubSeq(st.stack, 1, Len(st.stack) - 1)
         IN IF ~Match(o, ch) THEN [st EXCEPT !.err = "MismatchedParens"]
            ELSE IF rest # <<>> THEN
                   IF st.pos = n THEN [st EXCEPT !.err = "UnmatchedOpenParen"]
                   ELSE IF s[st.pos + 1] \notin (Closes \cup {","}) THEN [st EXCEPT !.err = "ExpectedParenOrComma"]
                   ELSE adv([st EXCEPT !.stack = rest, !.nodes = st.nodes + 1])
                 ELSE IF st.pos < n THEN [st EXCEPT !.err = "TrailingCharacter"]
                      ELSE adv([st EXCEPT !.stack = rest, !.nodes = st.nodes + 1])
  ELSE IF ch = "," THEN
    IF st.stack = <<>> THEN [st EXCEPT !.err = "TrailingCharacter"]
    ELSE adv([st EXCEPT !.nodes = st.nodes + 1])
  ELSE adv(st)

RECURSIVE P1Run(_, _)
P1Run(st, s) == IF st.err # "" \/ st.pos > Len(s) THEN st ELSE P1Run(P1Step(st, s), s)

Pass1(s) ==
  LET r == P1Run(P1Init, s) IN
  IF r.err # "" THEN r
  ELSE IF r.stack # <<>> THEN [r EXCEPT !.err = "UnmatchedOpenParen"]
  ELSE IF r.maxd > MaxDepth THEN [r EXCEPT !.err = "MaxRecursionDepthExceeded"]
  ELSE r

Accepts(s) == Pass1(s).err = ""

\* pass 2: number of nodes actually pushed and parent-stack high-water mark
\* state [pos, cur (a node is being named), built, pstack, pmax]
P2Init == [pos |-> 1, cur |-> TRUE, built |-> 0, pstack |-> 0, pmax |-> 0]
P2Step(st, s) ==
  LET ch == s[st.pos] IN
  IF ch \in Opens THEN
    [st EXCEPT !.pos = st.pos + 1, !.built = st.built + 1, !.cur = TRUE, !.pstack = st.pstack + 1,
               !.pmax = IF st.pstack + 1 > st.pmax THEN st.pstack + 1 ELSE st.pmax]
  ELSE IF ch = "," THEN
    [st EXCEPT !.pos = st.pos + 1, !.built = st.built + (IF st.cur THEN 1 ELSE 0), !.cur = TRUE]
  ELSE IF ch \in Closes THEN
    [st EXCEPT !.pos = st.pos + 1, !.built = st.built + (IF st.cur THEN 1 ELSE 0), !.cur = FALSE, !.pstack = st.pstack - 1]
  ELSE [st EXCEPT !.pos = st.pos + 1]
RECURSIVE P2Run(_, _)
P2Run(st, s) == IF st.pos > Len(s) THEN st ELSE P2Run(P2Step(st, s), s)
Pass2(s) == LET r == P2Run(P2Init, s) IN [r EXCEPT !.built = r.built + (IF r.cur THEN 1 ELSE 0)]

\* the capacity assertions of the implementation
BuiltEqualsPredicted(s) ==
  Accepts(s) => (Pass2(s).built = Pass1(s).nodes /\ Pass2(s).pmax = Pass1(s).maxd)
=============================================================================
