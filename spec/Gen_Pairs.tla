------------------------------ MODULE Gen_Pairs ------------------------------
(***************************************************************************)
(* C19: the item list whose full pair matrix (==, cmp, hash, string) the   *)
(* harness observes.  Items are distinct abstract ASTs (index = identity)  *)
(* in up to two textual styles ("x" explicit, "s" sugared), so StructEq of *)
(* two items is equality of their base index.  The list always contains    *)
(* the near-miss families: same shape differing only in threshold k, in    *)
(* the number of thresh / multi children (prefix related), in one leaf, in *)
(* lock values crossing a decimal length, pk_k vs pk_h of one key.         *)
(***************************************************************************)
EXTENDS AstGen, Json, IOUtils

Pk(k)  == Un("c", Leaf("pk_k", k))
Pkh(k) == Un("c", Leaf("pk_h", k))
S(x)   == Un("s", x)
A(x)   == Un("a", x)

NearMiss ==
  {Thresh(k, <<Pk(1), S(Pk(2)), S(Pk(3))>>) : k \in 1..3}
  \cup {Thresh(k, <<Pk(1), S(Pk(2))>>) : k \in 1..2}
  \cup {Thresh(1, <<Pk(1)>>)}
  \cup {Thresh(k, <<Pk(1), S(Pk(2)), S(Pk(3)), S(Pk(4))>>) : k \in 1..4}
  \cup {Thresh(k, <<Pk(1), A(Pk(2)), S(Pk(3))>>) : k \in 1..3}
  \cup {Thresh(k, <<Pk(1), S(Pk(3)), S(Pk(2))>>) : k \in 1..3}
  \cup {Ast(MultiName, k, ks, <<>>) : k \in 1..2, ks \in {<<1, 2>>, <<1, 2, 3>>, <<2, 1>>, <<1, 2, 3, 4>>, <<1, 3>>}}
  \cup {Leaf("after", n) : n \in {9, 10, 99, 100, 500000000, 500000001}}
  \cup {Leaf("older", n) : n \in {9, 10, 99, 100, 4194305, 4194313, 4194314}}
  \* values that coincide once bits outside the 16-bit value and the unit flag are dropped
  \cup {Leaf("older", n) : n \in {65535, 65536, 65546, 2097162, 4259850, 8388618, 1073741834}}
  \cup {Bin("and_v", Un("v", Pk(1)), Leaf("older", n)) : n \in {10, 65546}}
  \cup {Bin("and_v", Un("v", Pk(1)), Leaf("after", n)) : n \in {9, 10}}
  \cup {Tern("andor", Pk(a), Pk(b), Pk(c)) : a \in 1..2, b \in 1..2, c \in 1..2}
  \cup {Bin("or_d", Pk(1), Pk(2)), Bin("or_d", Pk(2), Pk(1)), Bin("or_b", Pk(1), S(Pk(2))), Bin("or_b", Pk(2), S(Pk(1)))}
  \cup {Bin("and_v", Un("v", Pk(1)), Leaf("1", 0)), Bin("or_i", Leaf("0", 0), Pk(1)), Bin("or_i", Pk(1), Leaf("0", 0)),
        Tern("andor", Pk(1), Pk(2), Leaf("0", 0))}

\* the matrix is quadratic in the number of items: above the exhaustive bound the enumerated
\* fragments are thinned (every PairStride-th by seed); the near-miss families are always complete
CONSTANT PairStride
\* items must be accepted by the library's parser: well-typed also under its named deviation D1
\* (d:X is never unit, so e.g. thresh(1,dv:0) is refused in tapscript although the specification types it)
Base == SetToSeq({a \in Thin({x.a : x \in WTUpTo(MaxNodes)}, PairStride, CompSeed) \cup {a \in NearMiss : TypeOf(a, Ctx).ok}
                  : TypeOfDev(a, Ctx).ok})

Items == [q \in 1..(2 * Len(Base)) |->
            [ast |-> Base[((q - 1) \div 2) + 1], base |-> ((q - 1) \div 2) + 1, style |-> IF q % 2 = 1 THEN "x" ELSE "s"]]

ASSUME ndJsonSerialize(IOEnv.OUT, <<[id |-> 1, ctx |-> Ctx, kind |-> "ms", items |-> Items]>>)
ASSUME PrintT("GEN " \o ToJson(<<"items", Len(Items), Len(Base)>>))
=============================================================================
