------------------------------- MODULE Gen_Sat -------------------------------
(***************************************************************************)
(* Case generator for the satisfaction pipeline (C01, C02, C03, C07, C09,  *)
(* C13, C17): every canonical well-typed B miniscript up to MaxNodes in    *)
(* context Ctx with the asset worlds relevant to it, one JSON line each.   *)
(***************************************************************************)
EXTENDS AstGen, Json, IOUtils

Wraps == CASE Ctx = "bare" -> <<"bare">>
           [] Ctx = "legacy" -> <<"sh">>
           [] Ctx = "segwitv0" -> <<"wsh", "shwsh">>
           [] Ctx = "tap" -> <<"tr", "tr33">>

BAsts0 == {x.a : x \in {y \in WTUpTo(MaxNodes) : y.t.b = "B" /\ KeyCanonical(y.a)}}

BAstsA == BAsts0 \cup CompKept \cup Comp2Kept \cup PrefixedKept \cup NestedChoice(NCKeep, CompSeed) \cup {x \in ThreshMix(NCKeep) : TypeOf(x, Ctx).b = "B"} \cup CostMix(NCKeep)

\* every fragment with a hash leaf also with another hash kind
BAsts == BAstsA \cup {a \in HashSwapped(BAstsA) : TypeOf(a, Ctx).ok}

WorldJson(w) == [sigs |-> SetToSeq(w.sigs), pre |-> SetToSeq(w.pre), env |-> w.env]

CaseSeq ==
  LET S == SetToSeq(BAsts) IN
  [i \in 1..Len(S) |->
     [id |-> i, ctx |-> Ctx, ast |-> S[i], wraps |-> Wraps,
      worlds |-> LET W == SetToSeq(WorldsOf(S[i])) IN [j \in 1..Len(W) |-> WorldJson(W[j])]]]

ASSUME ndJsonSerialize(IOEnv.OUT, CaseSeq)
ASSUME PrintT("GEN " \o ToJson(<<"cases", Len(CaseSeq), Cardinality(BAsts0), Cardinality(CompKept), Cardinality(Comp2Kept), Cardinality(PrefixedKept)>>))
=============================================================================
