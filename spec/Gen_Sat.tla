------------------------------- MODULE Gen_Sat -------------------------------
(***************************************************************************)
(* Case generator for the satisfaction pipeline (C01, C02, C03, C07, C09,  *)
(* C13, C17): every canonical well-typed B miniscript up to MaxNodes in    *)
(* context Ctx with the asset worlds relevant to it, one JSON line each.   *)
(***************************************************************************)
EXTENDS AstGen, Json, IOUtils

Wraps == CASE Ctx = "bare" -> <<"bare">>
           [] Ctx = "legacy" -> <<"sh">>
           [] Ctx = "segwitv0" -> <<"wsh", "shwsh">>
           [] Ctx = "tap" -> <<"tr">>

CONSTANTS CompStride,  \* 0: no composites; else the pools are thinned to every CompStride-th element
          CompKeep,    \* of the typed composites keep every CompKeep-th
          CompSeed     \* offset of the kept residue classes (from VERIF_SEED)

BAsts0 == {x.a : x \in {y \in WTUpTo(MaxNodes) : y.t.b = "B" /\ KeyCanonical(y.a)}}

(***************************************************************************)
(* Larger miniscripts than the exhaustive node bound reaches: every binary *)
(* combinator over the (<= 3 node) x (<= 2 node) pools in both orders,     *)
(* andor over the <= 2 node pool, thresh over three <= 2 node children;    *)
(* type-checked by SpecType, then thinned deterministically by stride.     *)
(***************************************************************************)
\* the pools are thinned BEFORE combination (cost is quadratic / cubic in pool size):
\* every CompStride-th element, residue class chosen by the seed
Thin(S, stride, off) == LET Q == SetToSeq(S) IN {Q[q] : q \in {r \in 1..Len(Q) : r % stride = off % stride}}
P3 == IF CompStride = 0 THEN {} ELSE Thin(WTUpTo(IF MaxNodes < 3 THEN MaxNodes ELSE 3), CompStride, CompSeed)
P2 == IF CompStride = 0 THEN {} ELSE Thin(WTUpTo(2), (CompStride + 1) \div 2, CompSeed)
P2all == IF CompStride = 0 THEN {} ELSE WTUpTo(2)
CompTyped ==
  IF CompStride = 0 THEN {}
  ELSE OkOnly({T(Bin(f, x.a, y.a), SpecBinType(f, x.t, y.t, Ctx)) : f \in BinFrags, x \in P3, y \in P2})
       \cup OkOnly({T(Bin(f, x.a, y.a), SpecBinType(f, x.t, y.t, Ctx)) : f \in BinFrags, x \in P2, y \in P3})
       \cup UNION {OkOnly({T(Tern("andor", x.a, y.a, z.a), SpecAndOrType(x.t, y.t, z.t, Ctx)) : y \in P2, z \in P2})
                   : x \in {q \in P2all : q.t.b = "B" /\ Has(q.t, {"d", "u"})}}
       \cup UNION {OkOnly({T(Thresh(k, <<x.a, y.a, z.a>>), SpecThreshType(k, <<x.t, y.t, z.t>>)) :
                             k \in 1..3, y \in {q \in P2all : q.t.b = "W" /\ Has(q.t, {"d", "u"})},
                             z \in {q \in P2 : q.t.b = "W" /\ Has(q.t, {"d", "u"})}})
                   : x \in {q \in P2 : q.t.b = "B" /\ Has(q.t, {"d", "u"})}}
CompB == {x \in CompTyped : x.t.b = "B" /\ NodeCount(x.a) > MaxNodes /\ KeyCanonical(x.a)}
CompKept == IF CompStride = 0 THEN {} ELSE {x.a : x \in Thin(CompB, CompKeep, CompSeed)}
\* a second level: composites under or_d / or_b / and_b / or_i with a small sibling (dissatisfied
\* and satisfied positions of the composite both occur)
Sib == {q \in P2 : KeyCanonical(q.a)}
Comp2Kept == IF CompStride = 0 THEN {}
             ELSE LET lvl1 == Thin(CompB, CompKeep * 8, CompSeed + 1)
                      lvl2 == {z \in OkOnly({T(Bin(f, x.a, s.a), SpecBinType(f, x.t, s.t, Ctx)) : f \in {"or_d", "or_b", "and_b", "or_i"}, x \in lvl1, s \in Sib})
                                 : z.t.b = "B" /\ KeyCanonical(z.a)}
                  IN {y.a : y \in Thin(lvl2, 6, CompSeed)}

BAsts == BAsts0 \cup CompKept \cup Comp2Kept

WorldJson(w) == [sigs |-> SetToSeq(w.sigs), pre |-> SetToSeq(w.pre), env |-> w.env]

CaseSeq ==
  LET S == SetToSeq(BAsts) IN
  [i \in 1..Len(S) |->
     [id |-> i, ctx |-> Ctx, ast |-> S[i], wraps |-> Wraps,
      worlds |-> LET W == SetToSeq(WorldsOf(S[i])) IN [j \in 1..Len(W) |-> WorldJson(W[j])]]]

ASSUME ndJsonSerialize(IOEnv.OUT, CaseSeq)
ASSUME PrintT("GEN " \o ToJson(<<"cases", Len(CaseSeq), Cardinality(BAsts0), Cardinality(CompKept), Cardinality(Comp2Kept)>>))
=============================================================================
