INIT Init
NEXT Next
INVARIANT Lemma
CHECK_DEADLOCK FALSE
