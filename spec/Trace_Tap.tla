------------------------------- MODULE Trace_Tap -------------------------------
(***************************************************************************)
(* C15: what the REAL library computes for a tr() descriptor with the      *)
(* given script tree, named through alpha by the sub-trees the real hashes *)
(* commit to, against the BIP341 algebra of Taproot.tla.                   *)
(***************************************************************************)
EXTENDS TapBuilder, TapSpend, Json, IOUtils, SequencesExt

ASSUME TLCSet(1, ndJsonDeserialize(IOEnv.TRACE))
Rec == TLCGet(1)
NB == 64

VARIABLES b, i
Init == b = 0 /\ i = 0
Next == \/ b = 0 /\ b' \in 1..NB /\ i' = 0
        \/ b > 0 /\ i = 0 /\ b' = b /\ i' \in {j \in 1..Len(Rec) : j % NB = b - 1}

Report(prop, clause, ev, detail) == PrintT("VERDICT " \o ToJson(<<prop, clause, ev.id, 0, detail>>))

Proj(ls) == [q \in 1..Len(ls) |-> [k |-> ls[q].k, depth |-> ls[q].depth]]

\* bind expensive values once: a quantifier over a singleton evaluates its set exactly once,
\* whereas a LET definition may be re-evaluated at every reference
JudgeEvent(ev) ==
  \A tr \in {FromDL(ev.dl)} : \A L \in {LeavesT(tr)} : \A tooDeep \in {Height(tr) > MAX_DEPTH} :
  /\ (~ev.panic \/ Report("C11", "taproot_panic", ev, ev.msg))
  \* L2 conformance: the builder state machine of TapBuilder.tla predicts acceptance and the depth list
  /\ (ev.panic \/ \A B \in {BuilderOf(tr)} :
        (ev.parsed = ~B.err /\ (~ev.parsed \/ [q \in 1..Len(ev.leaves) |-> [d |-> ev.leaves[q].depth, k |-> ev.leaves[q].k]] = B.leaves))
        \/ Report("INFO", "drift_l2_tapbuilder", ev, ""))
  \* a tree within the depth limit on which the library panics has no output key, no control blocks
  /\ (~ev.panic \/ tooDeep \/ Report("C15", "valid_tree_panics", ev, ev.msg))
  /\ (ev.panic \/
      IF tooDeep
      THEN (~ev.parsed \/ Report("C15", "tree_deeper_than_128_accepted", ev, Height(tr)))
      ELSE
      /\ (ev.parsed \/ Report("C15", "valid_tree_rejected", ev, ev.msg))
      /\ (~ev.parsed \/
          \* leaves, order and depths through parsing, formatting, translation, iteration
          /\ (ev.leaves = Proj(L) \/ Report("C15", "leaves_differ_after_parse", ev, <<ev.leaves, Proj(L)>>))
          /\ (ev.roundtrip_leaves = Proj(L) \/ Report("C15", "leaves_differ_after_print_parse", ev, ""))
          /\ (ev.roundtrip_eq \/ Report("C15", "print_parse_not_equal", ev, ""))
          /\ (ev.translated_leaves = Proj(L) \/ Report("C15", "leaves_differ_after_translate", ev, ""))
          /\ (ev.combine_leaves = Proj(L) \/ Report("C15", "leaves_differ_after_combine", ev, ""))
          \* C10: the descriptor built through the API, formatted and parsed, is an equal object
          /\ (ev.built_print_parse \in {"equal", "notbuilt"} \/ Report("C10", "built_tree_print_parse_not_equal", ev, ev.built_print_parse))
          \* commitment
          /\ (~ev.spend_panic \/ Report("C11", "taproot_panic", ev, "spend_info"))
          /\ (~ev.spend_panic \/ Report("C15", "spend_info_panics_on_accepted_tree", ev, ""))
          /\ (ev.spend_panic \/ (
              /\ (ev.root = Commit(tr) \/ Report("C15", "merkle_root_commits_to_other_tree", ev, <<ev.root, Commit(tr)>>))
              /\ (ev.output_key_ok \/ Report("C15", "output_key_is_not_tweak_of_internal_key", ev, ""))
              /\ (ev.spk_ok \/ Report("C15", "script_pubkey_is_not_p2tr_of_output_key", ev, ""))
              \* L2 conformance: the spend-info machines of TapSpend.tla (checked against L1 by
              \* MC_TapSpend) emit the same leaves with the same Merkle branches
              /\ (\A S \in {SpendItems(ev.dl)} :
                    (Len(ev.spend) = Len(S)
                     /\ \A q \in 1..Len(S) : ev.spend[q].k = S[q].k
                          /\ ev.spend[q].path = [x \in 1..Len(S[q].branch) |-> TermC(S[q].branch[x])])
                    \/ Report("INFO", "drift_l2_tapspend", ev, ""))
              /\ (Len(ev.spend) = Len(L) \/ Report("C15", "spend_info_leaf_count", ev, <<Len(ev.spend), Len(L)>>))
              /\ (Len(ev.spend) # Len(L) \/
                  \A q \in 1..Len(L) :
                    LET s == ev.spend[q] IN
                    /\ ((s.k = L[q].k /\ s.depth = L[q].depth)
                        \/ Report("C15", "spend_info_leaf_order_or_depth", ev, <<q, s.k, s.depth, L[q].k, L[q].depth>>))
                    /\ (s.path = L[q].path \/ Report("C15", "control_block_path_differs", ev, <<q, s.path, L[q].path>>))
                    /\ (s.verifies \/ Report("C15", "control_block_does_not_verify", ev, q))
                    /\ (s.internal_ok \/ Report("C15", "control_block_internal_key_or_parity", ev, q)))))))

Inv == i > 0 => JudgeEvent(Rec[i])
Post == PrintT("TRACE_DONE " \o ToJson(<<Len(Rec), TLCGet("stats").distinct>>))
=============================================================================
