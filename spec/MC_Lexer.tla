------------------------------ MODULE MC_Lexer ------------------------------
(* every instruction sequence up to MaxLen over the crash generator's script alphabet *)
EXTENDS Lexer, FiniteSets
CONSTANT MaxLen
Alphabet == {"0", "1", "2", "17", "K", "X", "H20", "IF", "NOTIF", "ELSE", "ENDIF", "VERIFY", "TOALT", "FROMALT", "IFDUP", "DUP",
             "SWAP", "SIZE", "EQUAL", "EQUALVERIFY", "BOOLAND", "BOOLOR", "ADD", "NUMEQUAL", "NUMEQUALVERIFY", "0NOTEQUAL",
             "CHECKSIG", "CHECKSIGVERIFY", "CHECKSIGADD", "CHECKMULTISIG", "CHECKMULTISIGVERIFY", "CLTV", "CSV", "SHA256",
             "HASH160", "RETURN", "PUSHDATA1_TRUNC", "BAD", "NEG", "NONMIN", "PUSH5"}
VARIABLES s
Init == s = <<>>
Next == Len(s) < MaxLen /\ \E t \in Alphabet : s' = Append(s, t)
\* lexing loses nothing: an accepted token stream determines the instruction sequence
Injective == Lex(s).err = "" => Unlex(Lex(s).toks, 1) = s
\* an error leaves exactly the tokens of the instructions before the offending one, and every
\* prefix of an accepted sequence is accepted
PrefixClosed == Len(s) > 0 /\ Lex(s).err = "" => Lex(SubSeq(s, 1, Len(s) - 1)).err = ""
=============================================================================
