------------------------------- MODULE MC_Psbt -------------------------------
(* Model-checking instance of Psbt.tla: two inputs (a 2-of-3 wsh multisig and *)
(* a taproot script path with a hash lock), every interleaving of update /    *)
(* add-signature / add-preimage / finalize / finalize-input / extract.        *)
EXTENDS Psbt

c_Desc == <<[ctx |-> "segwitv0", wrap |-> "wsh", ast |-> Multi(2, <<1, 2, 3>>)],
            [ctx |-> "tap", wrap |-> "tr", ast |-> Bin("and_v", Un("v", Un("c", Leaf("pk_k", 1))), Leaf("sha256", 1))]>>
c_TxEnv == <<Env("segwitv0", TRUE, 150, SeqRec(FALSE, FALSE, FALSE, 15), 2),
             Env("tap", TRUE, 150, SeqRec(FALSE, FALSE, FALSE, 15), 2)>>
=============================================================================
