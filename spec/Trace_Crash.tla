------------------------------- MODULE Trace_Crash -------------------------------
(***************************************************************************)
(* C11: no enumerated input makes an entry point panic or run unreasonably *)
(* long; and the expression-tree parser accepts exactly the strings the    *)
(* L2 model ExprParser accepts, and the script lexer answers as the L2     *)
(* model Lexer does (drift is reported as information).                    *)
(***************************************************************************)
EXTENDS ExprParser, Lexer, Json, IOUtils

ASSUME TLCSet(1, ndJsonDeserialize(IOEnv.TRACE))
Rec == TLCGet(1)
NB == 64

VARIABLES b, i
Init == b = 0 /\ i = 0
Next == \/ b = 0 /\ b' \in 1..NB /\ i' = 0
        \/ b > 0 /\ i = 0 /\ b' = b /\ i' \in {j \in 1..Len(Rec) : j % NB = b - 1}

Report(prop, clause, ev, detail) == PrintT("VERDICT " \o ToJson(<<prop, clause, ev.id, 0, detail>>))

Class(c) == IF c \in {"(", ")", "{", "}", ","} THEN c ELSE "n"

JudgeEvent(ev) ==
  /\ \A q \in 1..Len(ev.panics) : Report("C11", "panic", ev, ev.panics[q])
  /\ \A q \in 1..Len(ev.slow) : Report("C11", "slow", ev, ev.slow[q])
  /\ (ev.kind # "str" \/
      LET cls == [q \in 1..Len(ev.chars) |-> Class(ev.chars[q])] IN
      ev.tree_ok = Accepts(cls) \/ Report("INFO", "expression_parser_drifts_from_model", ev, <<ev.tree_ok, Pass1(cls).err>>))
  \* L2 conformance: the script lexer against Lexer.tla - the same tokens, or the same kind of error
  /\ (ev.kind # "tokens" \/
      \A L \in {Lex(ev.toks)} :
        /\ (ev.lex.st # "panic" \/ Report("C11", "panic", ev, "lex"))
        /\ (ev.lex.st = "panic" \/ (IF L.err = "" THEN ev.lex.st = "ok" /\ ev.lex.toks = L.toks ELSE ev.lex.st = "err" /\ ev.lex.err = L.err)
            \/ Report("INFO", "lexer_drifts_from_model", ev, <<ev.lex, L>>)))

Inv == i > 0 => JudgeEvent(Rec[i])
Post == PrintT("TRACE_DONE " \o ToJson(<<Len(Rec), TLCGet("stats").distinct>>))
=============================================================================
