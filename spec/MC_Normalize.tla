----------------------------- MODULE MC_Normalize -----------------------------
(***************************************************************************)
(* The normalisation algorithm (Normalize.tla) against the truth tables:   *)
(* for every policy of the domain, Norm(P) has the truth table of P, has   *)
(* no constant below its root, and is a fixed point of Norm.               *)
(***************************************************************************)
EXTENDS Normalize, TLC, Json

L(p, n) == [p |-> p, n |-> n, xs |-> <<>>]
Leaves == {L("key", 1), L("key", 2), L("older", 10), L("after", 100), L("trivial", 0), L("unsat", 0)}
T1 == {PThresh(1, <<a>>) : a \in Leaves}
T2 == {PThresh(k, <<a, c>>) : k \in 0..3, a \in Leaves, c \in Leaves}
T3 == {PThresh(k, <<a, c, d>>) : k \in 1..3, a \in Leaves, c \in Leaves, d \in Leaves}
Inner == {PThresh(k, <<a, c>>) : k \in 1..2, a \in {L("key", 1), L("key", 3), L("unsat", 0)}, c \in {L("key", 2), L("trivial", 0), L("older", 10)}}
         \cup {PThresh(k, <<L("key", 3), L("key", 4), L("older", 10)>>) : k \in 1..3}
N2 == {PThresh(k, <<t, c>>) : k \in 1..2, t \in Inner, c \in Leaves}
      \cup {PThresh(k, <<c, t>>) : k \in 1..2, t \in Inner, c \in Leaves}
      \cup {PThresh(k, <<t, u, c>>) : k \in 1..3, t \in Inner, u \in Inner, c \in {L("key", 5), L("unsat", 0), L("trivial", 0)}}
N3 == {PThresh(k, <<PThresh(j, <<t, L("key", 6)>>), c>>) : k \in 1..2, j \in 1..2, t \in Inner, c \in {L("key", 5), L("unsat", 0), L("trivial", 0)}}

All == Leaves \cup T1 \cup T2 \cup T3 \cup N2 \cup N3

VARIABLES P, done
Init == P \in All /\ done = FALSE
Next == ~done /\ done' = TRUE /\ P' = P

Lemma ==
  LET R == CHOOSE r \in {Norm(P)} : TRUE IN
  /\ SameTable(P, R)
  /\ NoConstInside(R, TRUE)
  /\ Norm(R) = R
  \* a threshold in the result is a proper one
  /\ R.p = "thresh" => R.n >= 1 /\ R.n <= Len(R.xs) /\ Len(R.xs) >= 2
\* the entailment algorithm against truth-table implication, on all ordered pairs of a sub-domain
EntDom == Leaves \cup T1 \cup T2 \cup {x \in N2 : Len(x.xs) = 2 /\ x.xs[2].p # "thresh"}
EntLemma == P \in T2 \cup Leaves => \A C \in EntDom : EntailsAlg(P, C) = Entails(P, C) /\ EntailsAlg(C, P) = Entails(C, P)
\* filters: the result agrees with the policy wherever the assignment respects the age / time, and
\* keeps no lock the age / time does not imply
Ages == {0, 5, 10, 11, 4194314}
Times == {0, 99, 100, 500000000, 500000100}
FilterLemma ==
  /\ \A age \in Ages : LET R == AtAgeAlg(P, age) IN
       /\ \A T \in SUBSET (Atoms(P) \cup Atoms(R)) : AgeOK(T, P, age) => (EvalA(R, T) = EvalA(P, T))
       /\ \A a \in Atoms(R) : a[1] = "older" => RelImplied(a[2], age)
  /\ \A t \in Times : LET R == AtLockTimeAlg(P, t) IN
       /\ \A T \in SUBSET (Atoms(P) \cup Atoms(R)) : TimeOK(T, P, t) => (EvalA(R, T) = EvalA(P, T))
       /\ \A a \in Atoms(R) : a[1] = "after" => AbsImplied(a[2], t)
\* the key-count algorithm is the fewest signatures exactly when no key is repeated
MinKeysLemma ==
  NoRepeatedKey(P) => (IF SatisfiableA(P) THEN MinKeysAlg(P) = MinKeys(P) ELSE MinKeysAlg(P) = -1)
Count == Cardinality(All)
ASSUME PrintT(<<"domain", Count>>)
=============================================================================
