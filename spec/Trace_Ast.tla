------------------------------ MODULE Trace_Ast ------------------------------
(***************************************************************************)
(* Trace validation of per-AST observations: parser entry points, type     *)
(* checker, encoder/decoder, lifter, printer.                              *)
(*   C04  alpha(encode) = Encode; size; decode(encode) byte-identical,     *)
(*        same type and same spendability                                  *)
(*   C05  reported type vs SpecType (never stronger; exact minus named     *)
(*        deviations; rejects exactly the ill-typed)                       *)
(*   C07  Eval(lift(ms), w) <=> SatSet(ms, w) # {} for all relevant worlds  *)
(*   C10  print/parse round trip on miniscripts                            *)
(***************************************************************************)
EXTENDS Decoder, Validation, Json, IOUtils, FiniteSetsExt

ASSUME TLCSet(1, ndJsonDeserialize(IOEnv.TRACE))
Rec == TLCGet(1)
NB == 64

VARIABLES b, i
Init == b = 0 /\ i = 0
Next == \/ b = 0 /\ b' \in 1..NB /\ i' = 0
        \/ b > 0 /\ i = 0 /\ b' = b /\ i' \in {j \in 1..Len(Rec) : j % NB = b - 1}

Report(prop, clause, ev, detail) == PrintT("VERDICT " \o ToJson(<<prop, clause, ev.id, 0, detail>>))

LibTy(t) == Ty(t.b, Range(t.fl))

(***************************************************************************)
(* Named deviations of the library from the specification's tables (each   *)
(* makes the library *weaker*, never stronger):                            *)
(*   D1  d:X is never `u` (the specification grants u in tapscript, where  *)
(*       MINIMALIF is consensus).  TypeOfDev applies D1 at the d: rule and *)
(*       lets it propagate, so the comparison stays exact everywhere else. *)
(***************************************************************************)
\* clauses that quantify over all asset worlds are skipped for fragments with many keys (the wide
\* multisigs: 2^17 worlds); those are judged on encoding, size, type, text and validation only
FewKeys(m) == Cardinality(KeysOf(m)) <= 6
SameSpend(a1, a2, ctx) ==
  \A w \in WorldsOfCtx(a1, ctx) : Spendable(a1, w, ctx) = Spendable(a2, w, ctx)

(***************************************************************************)
(* C12: switches reject exactly the stated defect; entry points accept     *)
(* only what obeys the context; limits are exact w.r.t. the published      *)
(* figure; tightening never admits more.                                   *)
(***************************************************************************)
JudgeVal(ev, lt) ==
  LET ctx == ev.ctx  v == ev.val  m == ev.ast IN
  /\ (v.ok \/ Report("C11", "validate_panic", ev, v.err))
  /\ (~v.ok \/
      /\ \A sw \in Switches :
            (v.sw[sw] = ~Defect(sw, m, lt, ctx))
            \/ Report("C12", IF v.sw[sw] THEN "switch_misses_defect" ELSE "switch_rejects_without_defect", ev, sw)
      /\ (v.max \/ Report("C12", "MAX_rejects", ev, ""))
      /\ (v.consensus = ObeysContext(m, lt, ctx)
          \/ Report("C12", IF v.consensus THEN "consensus_params_accept_context_violation" ELSE "consensus_params_reject_valid", ev, ""))
      /\ (v.sane = ObeysSane(m, lt, ctx)
          \/ Report("C12", IF v.sane THEN "sane_params_accept_insane" ELSE "sane_params_reject_sane", ev, ""))
      /\ (ev.parse.insane.ok = ObeysContext(m, lt, ctx)
          \/ Report("C12", IF ev.parse.insane.ok THEN "from_str_insane_accepts_context_violation" ELSE "from_str_insane_rejects_valid", ev, ev.parse.insane.err))
      /\ (ev.parse.sane.ok = ObeysSane(m, lt, ctx)
          \/ Report("C12", IF ev.parse.sane.ok THEN "from_str_accepts_insane" ELSE "from_str_rejects_sane", ev, ev.parse.sane.err))
      /\ (v.mono_bad = <<>> \/ Report("C12", "tightening_admits_more", ev, v.mono_bad))
      /\ (v.sane_entails_consensus \/ Report("C12", "SANE_not_below_CONSENSUS", ev, ""))
      \* limits: Ok exactly from the published figure upwards
      /\ \A nm \in {"script_size", "witness_items", "opcount", "exec_stack", "depth"} :
            (v.lim[nm] = <<FALSE, TRUE, TRUE>> \/ (nm # "script_size" /\ nm # "depth" /\ ~v.lim.has_sat /\ v.lim[nm] = <<TRUE, TRUE, TRUE>>))
            \/ Report("C12", "limit_not_exact", ev, <<nm, v.lim[nm]>>)
      \* descriptor entry points accept only what obeys the context, and what they accept the
      \* miniscript parser with consensus parameters accepts too
      /\ (ev.descs.ok \/ Report("C11", "descriptor_entry_panic", ev, ""))
      /\ (~ev.descs.ok \/
          \A q \in 1..Len(ev.descs.list) :
            LET d == ev.descs.list[q] IN
            /\ (~d.from_str \/ ObeysContext(m, lt, ctx)
                \/ Report("C12", "descriptor_from_str_accepts_context_violation", ev, d.wrap))
            /\ (~d.from_str \/ ev.parse.insane.ok
                \/ Report("C12", "descriptor_accepts_what_miniscript_consensus_rejects", ev, d.wrap))
            /\ (d.new # "ok" \/ ObeysContext(m, lt, ctx)
                \/ Report("C12", "descriptor_new_accepts_context_violation", ev, d.wrap))
            /\ (d.wrap # "bare" \/ ~(d.from_str \/ d.new = "ok") \/ BareStandard(m)
                \/ Report("C12", "bare_descriptor_accepts_nonstandard_top_level", ev, <<d.from_str, d.new>>))
            /\ ((d.new # "PANIC" /\ d.from_str_msg # "PANIC") \/ Report("C11", "descriptor_entry_panic", ev, d.wrap))))

JudgeEvent(ev) ==
  LET ctx == ev.ctx
      st  == TypeOf(ev.ast, ctx)
      sd  == TypeOfDev(ev.ast, ctx)
      anyPanic == ev.parse.insane.err = "PANIC" \/ ev.parse.sane.err = "PANIC" \/ ev.parse.max.err = "PANIC"
  IN
  /\ (~anyPanic \/ Report("C11", "parse_panic", ev, ""))
  \* C05: the library type-checks exactly the well-typed ASTs
  /\ (~ev.parse.max.ok \/ st.ok \/ Report("C05", "accepts_ill_typed", ev, ""))
  \* (a well-typed script above the context's consensus size limit is refused for that reason, which
  \* is C12's matter)
  /\ (ev.parse.max.ok \/ ~sd.ok \/ ~WithinConsensusSize(ev.ast, ctx) \/ Report("C05", "rejects_well_typed", ev, ev.parse.max.err))
  \* C12, rules no parameter set can lift: multisig flavour of the context, consensus script size
  /\ (~ev.parse.max.ok \/ ~HasHardForbidden(ev.ast, ctx) \/ Report("C12", "accepts_multisig_flavour_of_another_context", ev, ""))
  /\ (~ev.parse.max.ok \/ ~st.ok \/ WithinConsensusSize(ev.ast, ctx) \/ Report("C12", "accepts_script_above_consensus_size", ev, ByteLen(Encode(ev.ast, ctx))))
  /\ (ev.parse.max.ok \/ ~sd.ok \/ WithinConsensusSize(ev.ast, ctx) \/ Report("INFO", "refused_for_consensus_size", ev, ""))
  /\ (ev.parse.max.ok \/ ~st.ok \/ sd.ok \/ Report("INFO", "deviation_D1_rejects", ev, ""))
  /\ (~(ev.have /\ st.ok) \/
      LET lt == LibTy(ev.ty)
          enc == Encode(ev.ast, ctx)
      IN
      /\ (lt.b = st.b \/ Report("C05", "base", ev, <<lt.b, st.b>>))
      /\ (lt.fl \subseteq st.fl \/ Report("C05", "stronger_than_spec", ev, lt.fl \ st.fl))
      /\ (~sd.ok \/ sd.fl \subseteq lt.fl \/ Report("C05", "weaker_than_spec_beyond_D1", ev, sd.fl \ lt.fl))
      \* C10 / parser: the AST the library built is the one we wrote
      /\ (ev.back = ev.ast \/ Report("C10", "parse_builds_other_ast", ev, ""))
      \* C04
      /\ (ev.script = enc \/ Report("C04", "encode_differs", ev, ""))
      /\ (ev.script_len = ByteLen(ev.script) \/ Report("C04", "bytelen_model", ev, <<ev.script_len, ByteLen(ev.script)>>))
      /\ (ev.st.script_size = ev.script_len \/ Report("C04", "script_size", ev, <<ev.st.script_size, ev.script_len>>))
      /\ (~ev.parse.insane.ok \/
          /\ (ev.dec.ok \/ Report("C04", "decode_fails", ev, ev.dec.err))
          /\ (~ev.dec.ok \/
              /\ (ev.dec.same_bytes \/ Report("C04", "reencode_differs", ev, ""))
              /\ (LibTy(ev.dec.ty) = lt \/ Report("C04", "decode_type_differs", ev, ""))
              /\ (ev.dec.ast = ev.ast \/ Report("INFO", "decode_other_ast", ev, "")
                  )
              /\ (ev.dec.ast = ev.ast \/ ~TypeOf(ev.dec.ast, ctx).ok \/ st.b # "B" \/ ~FewKeys(ev.ast)
                  \/ SameSpend(ev.ast, ev.dec.ast, ctx) \/ Report("C04", "decode_semantics_differ", ev, ""))
              /\ (ev.dec.ast = ev.ast \/ TypeOf(ev.dec.ast, ctx).ok \/ Report("C04", "decode_ill_typed", ev, ""))))
      \* C04, reverse direction: whatever the decoder accepts among the instruction-level mutations
      \* of the real encoding is the canonical encoding of the miniscript it returns
      /\ (ev.decmut.panics = 0 \/ Report("C11", "decoder_panic_on_mutated_script", ev, ev.decmut.panics))
      /\ \A q \in 1..Len(ev.decmut.accepted) :
            LET a == ev.decmut.accepted[q] IN
            /\ (a.reenc_same \/ Report("C04", "decoder_accepts_script_it_does_not_reencode", ev, <<a.mut, a.hex>>))
            /\ (~a.known \/ Encode(a.ast, ctx) = a.ops \/ Report("C04", "decoder_accepts_noncanonical_script", ev, <<a.mut, a.hex>>))
      \* L2 conformance: the decoder automaton of Decoder.tla (checked against Encode by
      \* MC_Decoder) gives the library's answer on the real encoding and on every accepted mutant
      /\ (~ev.parse.insane.ok \/
          \A D \in {DecodeOps(ev.script, ctx)} :
            (D.ok = ev.dec.ok /\ (~D.ok \/ D.ast = ev.dec.ast))
            \/ Report("INFO", "drift_l2_decoder", ev, <<D.ok, D.err>>))
      /\ \A q \in 1..Len(ev.decmut.accepted) :
            LET a == ev.decmut.accepted[q] IN
            ~a.known \/ (\A D \in {DecodeOps(a.ops, ctx)} : (D.ok /\ D.ast = a.ast)
                          \/ Report("INFO", "drift_l2_decoder_mutant", ev, <<a.mut, D.ok, D.err>>))
      \* C07
      /\ (st.b # "B" \/ ~ev.lift.ok \/ ~FewKeys(ev.ast) \/
          \A w \in WorldsOfCtx(ev.ast, ctx) :
             Eval(ev.lift.pol, w) = Spendable(ev.ast, w, ctx)
             \/ Report("C07", "lift_differs", ev, <<Eval(ev.lift.pol, w), w.sigs, w.pre, w.env.lock, w.env.seq>>))
      /\ (ev.lift.ok \/ Report("INFO", "lift_err", ev, ev.lift.err))
      \* C12
      /\ JudgeVal(ev, lt)
      \* C10
      /\ (ev.text.ok \/ Report("C10", "reparse_fails", ev, ev.text.err))
      /\ (~ev.text.ok \/
          /\ (ev.text.eq \/ Report("C10", "reparse_not_equal", ev, ""))
          /\ (ev.text.fix \/ Report("C10", "print_not_fixpoint", ev, ""))
          /\ (ev.text.back = ev.ast \/ Report("C10", "reparse_other_ast", ev, ""))))

Inv == i > 0 => JudgeEvent(Rec[i])
Post == PrintT("TRACE_DONE " \o ToJson(<<Len(Rec), TLCGet("stats").distinct>>))
=============================================================================
