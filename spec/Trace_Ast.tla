------------------------------ MODULE Trace_Ast ------------------------------
(***************************************************************************)
(* Trace validation of per-AST observations: parser entry points, type     *)
(* checker, encoder/decoder, lifter, printer.                              *)
(*   C04  alpha(encode) = Encode; size; decode(encode) byte-identical,     *)
(*        same type and same spendability                                  *)
(*   C05  reported type vs SpecType (never stronger; exact minus named     *)
(*        deviations; rejects exactly the ill-typed)                       *)
(*   C07  Eval(lift(ms), w) <=> SatSet(ms, w) # {} for all relevant worlds  *)
(*   C10  print/parse round trip on miniscripts                            *)
(***************************************************************************)
EXTENDS Policy, Json, IOUtils, FiniteSetsExt

ASSUME TLCSet(1, ndJsonDeserialize(IOEnv.TRACE))
Rec == TLCGet(1)
NB == 64

VARIABLES b, i
Init == b = 0 /\ i = 0
Next == \/ b = 0 /\ b' \in 1..NB /\ i' = 0
        \/ b > 0 /\ i = 0 /\ b' = b /\ i' \in {j \in 1..Len(Rec) : j % NB = b - 1}

Report(prop, clause, ev, detail) == PrintT("VERDICT " \o ToJson(<<prop, clause, ev.id, 0, detail>>))

LibTy(t) == Ty(t.b, Range(t.fl))

(***************************************************************************)
(* Named deviations of the library from the specification's tables (each   *)
(* makes the library *weaker*, never stronger):                            *)
(*   D1  d:X is never `u` (the specification grants u in tapscript, where  *)
(*       MINIMALIF is consensus).  TypeOfDev applies D1 at the d: rule and *)
(*       lets it propagate, so the comparison stays exact everywhere else. *)
(***************************************************************************)
SameSpend(a1, a2, ctx) ==
  \A w \in WorldsOfCtx(a1, ctx) : Spendable(a1, w, ctx) = Spendable(a2, w, ctx)

JudgeEvent(ev) ==
  LET ctx == ev.ctx
      st  == TypeOf(ev.ast, ctx)
      sd  == TypeOfDev(ev.ast, ctx)
      anyPanic == ev.parse.insane.err = "PANIC" \/ ev.parse.sane.err = "PANIC" \/ ev.parse.max.err = "PANIC"
  IN
  /\ (~anyPanic \/ Report("C11", "parse_panic", ev, ""))
  \* C05: the library type-checks exactly the well-typed ASTs
  /\ (~ev.parse.max.ok \/ st.ok \/ Report("C05", "accepts_ill_typed", ev, ""))
  /\ (ev.parse.max.ok \/ ~sd.ok \/ Report("C05", "rejects_well_typed", ev, ev.parse.max.err))
  /\ (ev.parse.max.ok \/ ~st.ok \/ sd.ok \/ Report("INFO", "deviation_D1_rejects", ev, ""))
  /\ (~(ev.have /\ st.ok) \/
      LET lt == LibTy(ev.ty)
          enc == Encode(ev.ast, ctx)
      IN
      /\ (lt.b = st.b \/ Report("C05", "base", ev, <<lt.b, st.b>>))
      /\ (lt.fl \subseteq st.fl \/ Report("C05", "stronger_than_spec", ev, lt.fl \ st.fl))
      /\ (~sd.ok \/ sd.fl \subseteq lt.fl \/ Report("C05", "weaker_than_spec_beyond_D1", ev, sd.fl \ lt.fl))
      \* C10 / parser: the AST the library built is the one we wrote
      /\ (ev.back = ev.ast \/ Report("C10", "parse_builds_other_ast", ev, ""))
      \* C04
      /\ (ev.script = enc \/ Report("C04", "encode_differs", ev, ""))
      /\ (ev.script_len = ByteLen(ev.script) \/ Report("C04", "bytelen_model", ev, <<ev.script_len, ByteLen(ev.script)>>))
      /\ (ev.st.script_size = ev.script_len \/ Report("C04", "script_size", ev, <<ev.st.script_size, ev.script_len>>))
      /\ (~ev.parse.insane.ok \/
          /\ (ev.dec.ok \/ Report("C04", "decode_fails", ev, ev.dec.err))
          /\ (~ev.dec.ok \/
              /\ (ev.dec.same_bytes \/ Report("C04", "reencode_differs", ev, ""))
              /\ (LibTy(ev.dec.ty) = lt \/ Report("C04", "decode_type_differs", ev, ""))
              /\ (ev.dec.ast = ev.ast \/ Report("INFO", "decode_other_ast", ev, "")
                  )
              /\ (ev.dec.ast = ev.ast \/ ~TypeOf(ev.dec.ast, ctx).ok \/ st.b # "B"
                  \/ SameSpend(ev.ast, ev.dec.ast, ctx) \/ Report("C04", "decode_semantics_differ", ev, ""))
              /\ (ev.dec.ast = ev.ast \/ TypeOf(ev.dec.ast, ctx).ok \/ Report("C04", "decode_ill_typed", ev, ""))))
      \* C07
      /\ (st.b # "B" \/ ~ev.lift.ok \/
          \A w \in WorldsOfCtx(ev.ast, ctx) :
             Eval(ev.lift.pol, w) = Spendable(ev.ast, w, ctx)
             \/ Report("C07", "lift_differs", ev, <<Eval(ev.lift.pol, w), w.sigs, w.pre, w.env.lock, w.env.seq>>))
      /\ (ev.lift.ok \/ Report("INFO", "lift_err", ev, ev.lift.err))
      \* C10
      /\ (ev.text.ok \/ Report("C10", "reparse_fails", ev, ev.text.err))
      /\ (~ev.text.ok \/
          /\ (ev.text.eq \/ Report("C10", "reparse_not_equal", ev, ""))
          /\ (ev.text.fix \/ Report("C10", "print_not_fixpoint", ev, ""))
          /\ (ev.text.back = ev.ast \/ Report("C10", "reparse_other_ast", ev, ""))))

Inv == i > 0 => JudgeEvent(Rec[i])
Post == PrintT("TRACE_DONE " \o ToJson(<<Len(Rec), TLCGet("stats").distinct>>))
=============================================================================
