------------------------------- MODULE Policy -------------------------------
(***************************************************************************)
(* L1: semantics of abstract (semantic) policies as truth functions over   *)
(* asset worlds.  Policies are uniform records [p, n, xs]:                 *)
(*   unsat | trivial | key n | after n | older n | <hash kind> n |         *)
(*   thresh n xs                                                           *)
(***************************************************************************)
EXTENDS Worlds

RECURSIVE Eval(_, _)
RECURSIVE CountTrue(_, _, _)
CountTrue(xs, i, w) ==
  IF i > Len(xs) THEN 0 ELSE (IF Eval(xs[i], w) THEN 1 ELSE 0) + CountTrue(xs, i + 1, w)

Eval(P, w) ==
  CASE P.p = "unsat"   -> FALSE
    [] P.p = "trivial" -> TRUE
    [] P.p = "key"     -> P.n \in w.sigs
    [] P.p = "after"   -> CltvOk(P.n, w.env)
    [] P.p = "older"   -> CsvOk(P.n, w.env)
    [] P.p \in HashFrags -> <<P.p, P.n>> \in w.pre
    [] P.p = "thresh"  -> CountTrue(P.xs, 1, w) >= P.n

Spendable(m, w, ctx) == SatSet(m, w, ctx) # {}
=============================================================================
