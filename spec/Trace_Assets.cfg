INIT Init
NEXT Next
INVARIANT Inv
POSTCONDITION Post
CHECK_DEADLOCK FALSE
