------------------------------- MODULE Gen_Desc -------------------------------
(***************************************************************************)
(* C16 case generator: output types x key forms x key orders x networks x  *)
(* derivation indices.                                                     *)
(***************************************************************************)
EXTENDS Integers, Sequences, FiniteSets, TLC, Json, IOUtils, SequencesExt

CONSTANT Tier

\* wrap -> number of keys
Wraps == <<[w |-> "bare_pk", n |-> 1], [w |-> "bare_multi", n |-> 2], [w |-> "pkh", n |-> 1], [w |-> "wpkh", n |-> 1],
           [w |-> "shwpkh", n |-> 1], [w |-> "sh_multi", n |-> 3], [w |-> "sh_sortedmulti", n |-> 3],
           [w |-> "wsh_multi", n |-> 3], [w |-> "wsh_sortedmulti", n |-> 3], [w |-> "wsh_andv", n |-> 2],
           [w |-> "shwsh_multi", n |-> 2], [w |-> "shwsh_sortedmulti", n |-> 3], [w |-> "tr_key", n |-> 1],
           [w |-> "tr_tree", n |-> 3], [w |-> "tr_sortedmulti_a", n |-> 3]>>

Forms == <<"single", "xpub", "xpub_path", "xpub_wild", "origin_wild", "multipath2", "multipath3", "hardened_wild">>

FormTuples(n) ==
  {[q \in 1..n |-> f] : f \in Range(Forms)}
  \cup (IF n >= 2 THEN {[q \in 1..n |-> IF q = 1 THEN "single" ELSE "xpub_wild"],
                        [q \in 1..n |-> IF q = 1 THEN "origin_wild" ELSE IF q = 2 THEN "xpub_path" ELSE "xpub_wild"],
                        [q \in 1..n |-> IF q = 1 THEN "multipath2" ELSE "xpub_wild"],
                        [q \in 1..n |-> IF q = 1 THEN "multipath2" ELSE "multipath3"]}
        ELSE {})

Perms(n) == {p \in [1..n -> 1..n] : \A a, c \in 1..n : a # c => p[a] # p[c]}
IdPerm(n) == [q \in 1..n |-> q]

Nets == <<"bitcoin", "testnet", "signet", "regtest">>
Idxs == <<"0", "1", "7", "2147483647", "2147483648">>

Cases0 ==
  UNION {UNION {{[wrap |-> Wraps[q].w, forms |-> ft, perm |-> p, net |-> "bitcoin", idx |-> "1"] : p \in Perms(Wraps[q].n)}
                : ft \in FormTuples(Wraps[q].n)} : q \in 1..Len(Wraps)}
  \cup UNION {UNION {{[wrap |-> Wraps[q].w, forms |-> ft, perm |-> IdPerm(Wraps[q].n), net |-> Nets[a], idx |-> Idxs[c]]
                      : a \in 1..Len(Nets), c \in 1..Len(Idxs)}
                     : ft \in FormTuples(Wraps[q].n)} : q \in 1..Len(Wraps)}

CaseSeq == LET S == SetToSeq(Cases0) IN [q \in 1..Len(S) |-> S[q] @@ [id |-> q]]
ASSUME ndJsonSerialize(IOEnv.OUT, CaseSeq)
ASSUME PrintT("GEN " \o ToJson(<<"cases", Len(CaseSeq)>>))
=============================================================================
