"""C05 on the complete finite type domain: TLC Gen_Types -> harness `types` -> TLC Trace_Types."""
import json, os, time
from vlib import *

TIER = {"quick": dict(BinAll="FALSE", TernStride=97, ThreshN=2),
        "thorough": dict(BinAll="TRUE", TernStride=1, ThreshN=3)}


def ty_str(i):
    if i < 0:
        return {-1: "ERR", -2: "PANIC"}.get(i, str(i))
    m = i % 2; s = (i // 2) % 2; ds = (i // 4) % 3; u = (i // 12) % 2; d = (i // 24) % 2; inp = (i // 48) % 5; b = (i // 240) % 4
    return "BKVW"[b] + ["z", "o", "", "on", "n"][inp] + ("d" if d else "") + ("u" if u else "") + ["f", "e", ""][ds] + ("s" if s else "") + ("m" if m else "")


def run(tier, seed, wd=None):
    wd = wd or workdir("types_" + tier)
    build_harness()
    t0 = time.time()
    c = TIER[tier]
    write_module(wd, "Gen_Types_run", "Gen_Types", [],
                 ["CONSTANTS", "  BinAll = %s" % c["BinAll"], "  TernStride = %d" % c["TernStride"], "  ThreshN = %d" % c["ThreshN"]])
    jobs = os.path.join(wd, "jobs.ndjson")
    r = tlc(wd, "Gen_Types_run", "Gen_Types_run.cfg", env={"OUT": jobs}, workers=1, heap="8g", timeout=3000)
    g = r.tagged("GEN")
    if not g:
        log(r.out[-3000:])
        raise ToolError("Gen_Types failed")
    log("Gen_Types: %d jobs, %d reachable types (%.1fs)" % (g[0][2], g[0][4], r.secs))
    stats = {"jobs": g[0][2], "reachable_types": g[0][4], "sane_types": g[0][3], "states": 0, "transitions": 0, "samples": []}
    if tier == "thorough":
        write_module(wd, "MC_Reach_run", "MC_Reach", [], [])
        rr = tlc(wd, "MC_Reach_run", "MC_Reach_run.cfg", workers=1, heap="8g", timeout=3000)
        if "REACH_OK" not in rr.out:
            log(rr.out[-3000:])
            raise ToolError("MC_Reach lemma failed: ReachIdx literal is not the closure")
        stats["mc_reach"] = "closure recomputed and equal to literal (%.0fs)" % rr.secs
    obs = os.path.join(wd, "obs.ndjson")
    run_harness("types", jobs, obs)
    r = tlc(wd, "Trace_Types", "Trace_Types.cfg", env={"TRACE": obs}, workers=12, heap="12g", timeout=3400)
    done = r.tagged("TRACE_DONE")
    if not r.ok or not done or done[0][1] != g[0][2]:
        log(r.out[-4000:])
        raise ToolError("Trace_Types did not complete")
    rows = r.tagged("ROW")
    stats["rows"] = len(rows)
    stats["cells"] = sum(x[2] for x in rows) + 8
    stats["reach_cells"] = sum(x[3] for x in rows) + 8
    stats["drift_cells_unreachable_inputs"] = sum(x[2] for x in r.tagged("DRIFT"))
    stats["states"] = r.distinct
    stats["transitions"] = r.generated
    evs = {}
    with open(obs) as f:
        for ln in f:
            e = json.loads(ln)
            evs[e["id"]] = e
    for k in ("2", "40", "900"):
        if k in evs:
            e = evs[k]
            stats["samples"].append({"job": e["job"], "rule": e.get("rule"), "x": ty_str(e["x"]) if "x" in e else None,
                                     "row_head": [ty_str(x) for x in e["res"][:12]]})
    verdicts = []
    for v in r.tagged("VERDICT"):
        e = evs[v[3]]
        d = v[5]
        first = d["first"] if isinstance(d, dict) else None
        desc = {"job": e["job"], "rule": e.get("rule") or d.get("rule"), "k": e.get("k"),
                "x": ty_str(e["x"]) if "x" in e else None, "y": ty_str(e["y"]) if "y" in e else None,
                "kids": [ty_str(q) for q in e.get("kids", [])],
                "last": ty_str(first) if first is not None and e["job"] != "leaf" else None,
                "lib": ty_str(e["res"][first]) if first is not None and e["job"] != "leaf" else None,
                "n": d.get("n")}
        verdicts.append({"prop": v[1], "clause": v[2], "event": v[3], "detail": desc, "ctx": "types",
                         "case": {k: e[k] for k in e if k not in ("res", "ev")}})
    stats["wall"] = time.time() - t0
    log("Trace_Types: %d rows, %d cells (%d on reachable inputs), %d verdict lines (%.1fs)" %
        (stats["rows"], stats["cells"], stats["reach_cells"], len(verdicts), r.secs))
    return {"verdicts": verdicts, "stats": stats, "wd": wd}
