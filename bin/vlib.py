"""Shared driver machinery: run TLC / the harness, collect verdicts, known findings, evidence."""
import json, os, re, shutil, subprocess, sys, time, hashlib, random

VERIF = os.path.dirname(os.path.dirname(os.path.abspath(__file__)))
SPEC = os.path.join(VERIF, "spec")
HARNESS = os.path.join(VERIF, "harness")
BIN = os.path.join(HARNESS, "target", "release", "msverif")
EVID = os.path.join(VERIF, "evidence")
KNOWN = os.path.join(VERIF, "KNOWN_FINDINGS.jsonl")
TLA_JAR = "/opt/veriftools/tla/tla2tools.jar:/opt/veriftools/tla/CommunityModules-deps.jar"


class ToolError(Exception):
    pass


def log(*a):
    print(*a, file=sys.stderr, flush=True)


def workdir(name):
    d = os.path.join(VERIF, "work", name)
    shutil.rmtree(d, ignore_errors=True)
    os.makedirs(d)
    for f in os.listdir(SPEC):
        if f.endswith(".tla") or f.endswith(".cfg"):
            shutil.copy(os.path.join(SPEC, f), d)
    return d


def build_harness():
    t = time.time()
    env = dict(os.environ, CARGO_NET_OFFLINE="true")
    lock = os.path.join(HARNESS, "Cargo.lock")
    if not os.path.exists(lock):
        shutil.copy("/repo/Cargo.lock", lock)
    r = subprocess.run(["cargo", "build", "--release", "--offline"], cwd=HARNESS, env=env,
                       stdout=subprocess.PIPE, stderr=subprocess.STDOUT, text=True)
    if r.returncode != 0:
        log(r.stdout[-4000:])
        raise ToolError("cargo build of harness failed")
    log("harness built in %.1fs" % (time.time() - t))
    # spec/KeyOrder.tla states the BIP67 order of the universe's keys: re-check it against the real keys
    ko = json.loads(subprocess.run([BIN, "keyorder"], stdout=subprocess.PIPE, text=True, check=True).stdout)
    txt = open(os.path.join(SPEC, "KeyOrder.tla")).read().replace(" ", "")
    for name, ids in (("OrderC", ko["c"]), ("OrderX", ko["x"])):
        if "%s==<<%s>>" % (name, ",".join(str(x) for x in ids)) not in txt:
            raise ToolError("spec/KeyOrder.tla %s does not match the harness universe" % name)


INTERLEAVED = {"compile"}   # commands whose expensive cases cluster at the end of the case file


def run_harness(cmd, cases, out, extra=(), timeout=3600, env_extra=None, par=12):
    """run `msverif <cmd>` over the cases; large case files are split into contiguous (or, for the
    commands of INTERLEAVED, strided) chunks that run in parallel (cases are independent of each
    other) and the outputs are concatenated"""
    t = time.time()
    env = dict(os.environ)
    if env_extra:
        env.update(env_extra)
    with open(cases) as f:
        lines = f.readlines()
    k = 1 if len(lines) < 64 else min(par, max(1, len(lines) // 32))
    if k == 1:
        r = subprocess.run([BIN, cmd, cases, out] + list(extra), stdout=subprocess.PIPE, stderr=subprocess.PIPE,
                           text=True, timeout=timeout, env=env)
        if r.returncode != 0:
            log(r.stderr[-3000:])
            raise ToolError("harness %s failed rc=%d" % (cmd, r.returncode))
        log("harness %s: %s (%.1fs)" % (cmd, r.stderr.strip().splitlines()[-1] if r.stderr.strip() else "", time.time() - t))
        return
    size = (len(lines) + k - 1) // k
    procs = []
    for q in range(k):
        part = lines[q::k] if cmd in INTERLEAVED else lines[q * size:(q + 1) * size]
        if not part:
            continue
        cin, cout = "%s.part%d" % (cases, q), "%s.part%d" % (out, q)
        with open(cin, "w") as f:
            f.writelines(part)
        procs.append((cin, cout, subprocess.Popen([BIN, cmd, cin, cout] + list(extra), stdout=subprocess.PIPE, stderr=subprocess.PIPE, text=True, env=env)))
    n_events = 0
    with open(out, "w") as fo:
        for cin, cout, pr in procs:
            try:
                _, err = pr.communicate(timeout=timeout)
            except subprocess.TimeoutExpired:
                for _, _, p2 in procs:
                    p2.kill()
                raise ToolError("harness %s timed out" % cmd)
            if pr.returncode != 0:
                log(err[-3000:])
                raise ToolError("harness %s failed rc=%d" % (cmd, pr.returncode))
            with open(cout) as fi:
                for ln in fi:
                    fo.write(ln)
                    n_events += 1
            os.remove(cin)
            os.remove(cout)
    log("harness %s: msverif %s: %d cases -> %d events in %d parallel chunks (%.1fs)" % (cmd, cmd, len(lines), n_events, len(procs), time.time() - t))


class TlcResult:
    def __init__(self, out, rc, secs):
        self.out = out
        self.rc = rc
        self.secs = secs
        m = re.search(r"(\d[\d,]*) states generated, (\d[\d,]*) distinct states found", out)
        self.generated = int(m.group(1).replace(",", "")) if m else 0
        self.distinct = int(m.group(2).replace(",", "")) if m else 0
        self.ok = ("Model checking completed. No error has been found." in out) or \
                  ("Finished computing initial states" in out and rc == 0)
        self.lines = out.splitlines()

    def tagged(self, tag):
        """lines printed by PrintT(<<"tag", ...>>), parsed loosely into python lists"""
        res = []
        pref = '"%s [' % tag
        for ln in self.lines:
            if ln.startswith(pref):
                try:
                    inner = json.loads(ln)
                    res.append([tag] + json.loads(inner[len(tag) + 1:]))
                except Exception:
                    raise ToolError("unparsable %s line from TLC: %r" % (tag, ln[:200]))
        return res


def parse_tla_tuple(s):
    """Parse the textual form of a TLA+ tuple of strings / ints / nested tuples (as printed by PrintT)."""
    pos = [0]

    def ws():
        while pos[0] < len(s) and s[pos[0]] in " \n\t":
            pos[0] += 1

    def val():
        ws()
        if s.startswith("<<", pos[0]):
            pos[0] += 2
            items = []
            ws()
            if s.startswith(">>", pos[0]):
                pos[0] += 2
                return items
            while True:
                items.append(val())
                ws()
                if s.startswith(",", pos[0]):
                    pos[0] += 1
                    continue
                if s.startswith(">>", pos[0]):
                    pos[0] += 2
                    return items
                raise ValueError("bad tuple at %d in %r" % (pos[0], s))
        if s[pos[0]] == '"':
            j = pos[0] + 1
            buf = []
            while s[j] != '"':
                if s[j] == "\\":
                    j += 1
                buf.append(s[j])
                j += 1
            pos[0] = j + 1
            return "".join(buf)
        m = re.match(r"-?\d+", s[pos[0]:])
        if m:
            pos[0] += len(m.group(0))
            return int(m.group(0))
        m = re.match(r"(TRUE|FALSE)", s[pos[0]:])
        if m:
            pos[0] += len(m.group(0))
            return m.group(0) == "TRUE"
        # anything else (records, sets): take up to the matching top-level delimiter
        depth = 0
        j = pos[0]
        while j < len(s):
            if s.startswith("<<", j) or s[j] in "[{(":
                depth += 1
                j += 2 if s.startswith("<<", j) else 1
                continue
            if s.startswith(">>", j) or s[j] in "]})":
                if depth == 0:
                    break
                depth -= 1
                j += 2 if s.startswith(">>", j) else 1
                continue
            if s[j] == "," and depth == 0:
                break
            j += 1
        r = s[pos[0]:j].strip()
        pos[0] = j
        return r

    return val()


def tlc(wd, module, cfg, env=None, workers=8, heap="8g", timeout=3600, extra=(), simulate=None):
    t = time.time()
    e = dict(os.environ)
    e["JAVA_TOOL_OPTIONS"] = "-Xss1g"
    if env:
        e.update(env)
    meta = os.path.join(wd, "meta_" + module + "_" + str(random.randrange(10**9)))
    cmd = ["timeout", str(timeout), "java", "-Xss1g", "-XX:+UseParallelGC", "-Xmx" + heap, "-cp", TLA_JAR, "tlc2.TLC",
           "-workers", str(workers), "-metadir", meta, "-cleanup", "-noGenerateSpecTE",
           "-config", cfg] + list(extra) + [module + ".tla"]
    r = subprocess.run(cmd, cwd=wd, env=e, stdout=subprocess.PIPE, stderr=subprocess.STDOUT, text=True)
    shutil.rmtree(meta, ignore_errors=True)
    res = TlcResult(r.stdout, r.returncode, time.time() - t)
    if r.returncode == 124:
        raise ToolError("TLC timed out on %s" % module)
    return res


_SPEC_HASH = None


def spec_hash():
    global _SPEC_HASH
    if _SPEC_HASH is None:
        h = hashlib.sha1()
        for f in sorted(os.listdir(SPEC)):
            if f.endswith(".tla"):
                h.update(f.encode())
                h.update(open(os.path.join(SPEC, f), "rb").read())
        _SPEC_HASH = h.hexdigest()
    return _SPEC_HASH


def gen_cached(wd, name, extends, defs, cfg_lines, out, heap="8g", timeout=3000):
    """run a generator module (pure function of the specification and its configuration) or reuse
    its cached output; returns a TlcResult carrying the GEN line"""
    key = hashlib.sha1(("\n".join([spec_hash(), extends] + list(defs) + list(cfg_lines))).encode()).hexdigest()
    cdir = os.path.join(VERIF, "work", "gencache")
    os.makedirs(cdir, exist_ok=True)
    cdata, cout = os.path.join(cdir, key + ".ndjson"), os.path.join(cdir, key + ".out")
    write_module(wd, name, extends, defs, cfg_lines)
    if os.path.exists(cdata) and os.path.exists(cout) and not os.environ.get("VERIF_NO_GENCACHE"):
        shutil.copy(cdata, out)
        return TlcResult(open(cout).read(), 0, 0.0)
    r = tlc(wd, name, name + ".cfg", env={"OUT": out}, workers=1, heap=heap, timeout=timeout)
    if r.tagged("GEN") and os.path.exists(out):
        tmp = cdata + ".tmp%d" % os.getpid()
        shutil.copy(out, tmp)
        os.replace(tmp, cdata)
        with open(cout + ".tmp%d" % os.getpid(), "w") as f:
            f.write("\n".join(l for l in r.out.splitlines() if "GEN " in l) + "\n")
        os.replace(cout + ".tmp%d" % os.getpid(), cout)
    return r


def write_module(wd, name, extends, defs, cfg_lines):
    """generate a wrapper module <name>.tla EXTENDS <extends> with constant definitions and its cfg"""
    with open(os.path.join(wd, name + ".tla"), "w") as f:
        f.write("---- MODULE %s ----\nEXTENDS %s\n%s\n====\n" % (name, extends, "\n".join(defs)))
    with open(os.path.join(wd, name + ".cfg"), "w") as f:
        f.write("\n".join(cfg_lines) + "\n")


# ---------------------------------------------------------------------------------------------
# known findings
def load_known():
    ks = []
    if os.path.exists(KNOWN):
        for ln in open(KNOWN):
            ln = ln.strip()
            if ln and not ln.startswith("#"):
                ks.append(json.loads(ln))
    return ks


def match_known(known, prop, clause, ctxinfo):
    """ctxinfo: dict of attributes of the violating case (wrap, route, mode, abs, ...).
    A known finding matches when property and clause agree and every key of its `where` dict
    matches (value equality, membership in a list, or regex when prefixed by 're:')."""
    for k in known:
        if k.get("status") != "open":
            continue
        if k["property"] != prop or k["clause"] != clause:
            continue
        ok = True
        for key, want in k.get("where", {}).items():
            if key.endswith("_json"):
                ok = json.dumps(ctxinfo.get(key[:-5]), sort_keys=True) == want
                if not ok:
                    break
                continue
            have = ctxinfo.get(key)
            if isinstance(want, list):
                ok = have in want
            elif isinstance(want, str) and want.startswith("re:"):
                ok = have is not None and re.search(want[3:], str(have)) is not None
            else:
                ok = have == want
            if not ok:
                break
        if ok:
            return k
    return None


# ---------------------------------------------------------------------------------------------
def write_evidence(prop, tier, seed, level, coverage, wall, violations, assumptions):
    global EVID
    if os.environ.get("VERIF_NO_EVIDENCE"):
        # runs against deliberately broken trees (seeded changes) must not touch committed evidence
        EVID = os.path.join(VERIF, "work", "evidence_scratch")
    os.makedirs(EVID, exist_ok=True)
    ev = {
        "property_id": prop, "tier": tier, "seed": seed, "level": level,
        "coverage": coverage, "assumptions": assumptions, "wall_s": round(wall, 1),
        "violations": violations,
    }
    with open(os.path.join(EVID, prop + ".json"), "w") as f:
        json.dump(ev, f, indent=1)


def finish(prop, violations, known_hits, replay_dir):
    """print KNOWN-FINDING / VIOLATION lines; return exit code"""
    seen = set()
    for k, example in known_hits:
        key = k["id"]
        if key in seen:
            continue
        seen.add(key)
        print("KNOWN-FINDING: property=%s %s [%s] e.g. %s" % (prop, k["what"], k["id"], example))
    if violations:
        os.makedirs(replay_dir, exist_ok=True)
        shown = 0
        for v in violations:
            path = os.path.join(replay_dir, "%s_%s_%d.json" % (prop, v["clause"], shown))
            with open(path, "w") as f:
                json.dump(v, f)
            if shown < 20:
                print("VIOLATION property=%s replay=%s  # %s %s" % (prop, path, v["clause"], v.get("summary", "")))
            shown += 1
        print("%d violation(s) for %s" % (len(violations), prop))
        return 1
    return 0
