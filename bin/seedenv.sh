#!/bin/bash
# seedenv.sh : development helper (not a registered check). Builds a private copy of /repo's HEAD and of
# /verif under /tmp/seedenv so that seeded changes can be tried without touching /repo's working tree
# (e.g. while a long run uses it).   seedenv.sh setup | seedenv.sh test <S-dir> <tier> <checks...> | seedenv.sh clean
set -e
E=/tmp/seedenv
case "$1" in
  setup)
    rm -rf $E/verif; mkdir -p $E
    if [ -d $E/repo ]; then git -C /repo worktree remove --force $E/repo || true; fi
    git -C /repo worktree prune
    git -C /repo worktree add --detach $E/repo HEAD >/dev/null
    rsync -a --exclude work --exclude harness/target --exclude .git /verif/ $E/verif/
    mkdir -p $E/verif/work
    sed -i "s#path = \"/repo\"#path = \"$E/repo\"#" $E/verif/harness/Cargo.toml
    ( cd $E/verif/harness && cargo build --release --offline 2>&1 | tail -1 )
    ;;
  sync)   # refresh the copy of /verif (specs, harness sources, drivers) keeping the build cache
    rsync -a --exclude work --exclude harness/target --exclude .git --exclude harness/Cargo.toml /verif/ $E/verif/
    ;;
  test)
    set +e
    s=$2; tier=$3; shift 3
    cd $E/repo
    git checkout -q -- .
    git apply /verif/seeded/$s/patch.diff || { echo "patch does not apply"; exit 2; }
    mkdir -p /verif/work/seedlogs
    for c in "$@"; do
      ( cd $E/verif && VERIF_NO_EVIDENCE=1 bin/check $c $tier > /verif/work/seedlogs/$s.$c.$tier.log 2>&1; echo "$s $c $tier exit=$? violations=$(grep -c '^VIOLATION' /verif/work/seedlogs/$s.$c.$tier.log)" )
    done
    git checkout -q -- .
    ;;
  clean)
    git -C /repo worktree remove --force $E/repo || true; git -C /repo worktree prune; rm -rf $E
    ;;
esac
