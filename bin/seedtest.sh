#!/bin/bash
# seedtest.sh <seed-dir-name> <tier> <check ids...> : apply a seeded change to /repo, run checks, revert
s=$1; tier=$2; shift 2
cd /repo || exit 2
if [ -n "$(git status --porcelain)" ]; then echo "repo dirty"; exit 2; fi
git apply /verif/seeded/$s/patch.diff || { echo "patch does not apply"; exit 2; }
mkdir -p /verif/work/seedlogs
for c in "$@"; do
  ( cd /verif && VERIF_NO_EVIDENCE=1 bin/check $c $tier > /verif/work/seedlogs/$s.$c.$tier.log 2>&1; echo "$s $c $tier exit=$? violations=$(grep -c '^VIOLATION' /verif/work/seedlogs/$s.$c.$tier.log)" )
done
git checkout -- . 
