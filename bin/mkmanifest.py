#!/usr/bin/env python3
"""regenerate MANIFEST.json from the table below (keeps it valid at all times)"""
import json, os
V = os.path.dirname(os.path.dirname(os.path.abspath(__file__)))
props = [json.loads(l) for l in open(os.path.join(V, "properties.jsonl"))]
TB = "trusted: TLC, the L1 transcription (Script.tla/MsSpec.tla/Verify.tla/Policy.tla...), alpha and rust-bitcoin/secp256k1/bitcoin_hashes; bounds in evidence"
C = {
 "C20": ('translate-pipeline', 'model_checking', 'Subst(ast, f) and KeysPre(ast) of the TLA+ AST model vs. real translate_pk / iter_pk / for_each_key / for_any_key on every enumerated miniscript and its descriptor wrapper, 6 mappings + composition + String->concrete; concrete policies (incl. weighted or, positional thresholds) under 4 mappings vs Subst(P, f) with odds and child order, failure iff the mapping fails on an occurring key, keys()/for_each_key bags, semantic identity translation', '5/C20',
         'TLA+ structural substitution / pre-order key sequence vs. library translation and iteration (Trace_Translate, Trace_PolText)'),
 "C01": ("sat-pipeline", "model_checking", "every satisfaction returned by get_satisfaction[_mall] and plan+satisfy, for every canonical well-typed B miniscript up to the node bound in 4 contexts / 5 wrappers and every relevant asset world, is alpha-abstracted and executed by the TLA+ Script VM under consensus+standardness rules of its output type; bounded-exhaustive; plus taproot descriptors with real script trees (1-3 leaves, both 3-leaf shapes, shared and disjoint keys) and key-only outputs: key-path vs script-path spends of get_satisfaction / plan, judged by VerifyInput, Encode(leaf) and SatSet per leaf (trsat pipeline)", "5/C01",
         "TLA+ Script VM + Verify.tla judged by TLC on traces of the real satisfier (Trace_Sat); MC_SatSet lemma; Trace_TrSat for taproot trees"),
 "C02": ("sat-pipeline", "model_checking", "every 'no satisfaction' answer over the same domain is confronted with the complete SatSet of MsSpec.tla (itself cross-checked against brute-force VM search by MC_SatSet); plus taproot descriptors with real script trees (1-3 leaves, both 3-leaf shapes, shared and disjoint keys) and key-only outputs: key-path vs script-path spends of get_satisfaction / plan, judged by VerifyInput, Encode(leaf) and SatSet per leaf (trsat pipeline)", "5/C02",
         "TLA+ SatSet table vs. real satisfier answers (Trace_Sat); MC_SatSet completeness lemma; Trace_TrSat for taproot trees"),
 "C08": ("compile-pipeline", "model_checking", "every successful compilation (15 targets) of every enumerated concrete policy is judged semantically: truth table of the output's SatSet-spendability over all asset worlds equals the policy's, output is B / signed / non-malleable by the specification's tables, obeys the target context's sanity rules and re-parses", "5/C08",
         "TLA+ SatSet/Spendable truth tables + SpecType + Validation predicates on compiler outputs (Trace_Compile)"),
 "C09": ("sat-pipeline", "model_checking", "every static figure (script size, witness count/size, scriptSig size, max weight, op count, plan sizes) is compared with the value measured on each produced satisfaction by the VM and the size model; limits clause checked on VM depth/op count; max_weight_to_satisfy and plan sizes of multi-leaf taproot descriptors vs every spend built (trsat pipeline)", "5/C09",
         "TLA+ VM measurement + size model vs. library figures (Trace_Sat); Trace_TrSat"),
 "C03": ("nonmall-pipeline", "model_checking", "every non-malleable satisfaction the library returns for a sane descriptor is attacked by exhaustive adversarial witness search (all stacks up to |w|+1 over the third-party alphabet) executed in the TLA+ VM under standardness rules; any accepted alternative is a violation; bounds in evidence", "5/C03",
         "exhaustive bounded adversary search in the TLA+ Script VM against real non-malleable witnesses (Trace_NonMall)"),
 "C04": ("ast-pipeline", "model_checking", "alpha(encode(ms)) = Encode(ms) of MsSpec.tla, script_size = ByteLen, decode(encode) byte-identical / same type / same spendability, for all enumerated ASTs in 4 contexts; reverse direction: every instruction-level mutation of every real encoding offered to decode_consensus, accepted ones must re-encode to the offered bytes and equal Encode(decoded AST)", "5/C04",
         "TLA+ Encode/ByteLen templates vs. real encoder/decoder (Trace_Ast); decoder judged on mutated encodings"),
 "C05": ("types-pipeline", "model_checking", "every type rule evaluated by the real library over explicit child types (all 960 values of the last child per row) compared cell-by-cell with the specification tables in MsSpec.tla; exhaustive over reachable child types in thorough; plus Miniscript::ty of every enumerated AST", "5/C05",
         "TLA+ SpecType tables vs. library rule functions on the complete finite domain (Trace_Types, Trace_Ast)"),
 "C06": ("typesound-pipeline", "model_checking", "for every well-typed fragment up to the node bound the real encoded script is executed by the TLA+ VM from every input stack up to the length bound over an adversarial alphabet; z/o/n/u/d/f/s and B/V/K/W shape predictions of the real Miniscript::ty are checked on the runs; MC_TypeSound proves the same for the specification's own tables", "5/C06",
         "exhaustive bounded execution in the TLA+ Script VM of real encoded scripts vs. real type flags (Trace_TypeSound + MC_TypeSound lemma)"),
 "C07": ("ast-pipeline", "model_checking", "Eval(lift(ms), w) = (SatSet(ms, w) # {}) for every enumerated B miniscript and every relevant world", "5/C07",
         "TLA+ policy truth function vs. SatSet on the library's lift output (Trace_Ast)"),
 "C10": ('ast-pipeline', 'model_checking', 'miniscripts: parser-built AST = written AST, print->parse equality, print fixpoint, sugar; descriptors (22 output shapes x key-form tuples incl. origins, xpubs, wildcards, multipath): print->parse equality, fixpoint, checksum-less form, same script, public and secret key expressions round-trip; checksum: printed checksum recomputed by Checksum.tla (BIP380 in TLA+), EVERY single-character substitution and sampled 2- / in-group 3-,4-substitutions offered to verify_checksum and Descriptor::from_str and judged by ValidStr, library engine vs Checksum.tla on corrupted payloads, MC_Checksum lemma (BIP380 admits no valid string at those distances; exhaustive on short strings); policies: parser-built policy incl. odds, concrete and lifted semantic print->parse equality and fixpoint', '5/C10',
         'TLA+ Checksum.tla (BIP380 polymod) model-checked by MC_Checksum and used by TLC to judge real corrupted descriptor strings (Trace_Cksum); structural AST / policy comparison in TLA+ of parse/print round trips (Trace_Ast, Trace_PolText)'),
 "C11": ('crash-pipeline', 'exploration', "panic / hang observation on exhaustively enumerated small input spaces (strings, opcode sequences) and parametric extreme families for every parser, the decoder, the interpreter, the PSBT finalizer/updater and the planner; the expression parser's accept/reject verdict is compared with the ExprParser.tla model (MC_Expr); plus the witness space (every library witness and every single-element mutation through the interpreter) and taproot tree shapes / chains; thorough additionally runs the policy, desc, psbt, plan and compile pipelines and reports every panic they observe; allocation is not observed", '5/C11',
         'enumerated-input conformance under catch_unwind judged by TLC (Trace_Crash, Trace_Interp, Trace_Tap, ...) + ExprParser.tla model (MC_Expr)'),
 "C12": ("ast-pipeline", "model_checking", "each validation switch rejects exactly the ASTs with the L1 defect (Validation.tla), parameter sets / parsers accept exactly ObeysContext / ObeysSane, limits exact w.r.t. published figures, lattice monotone, descriptor parsers and constructors accept only context-obeying scripts; over all enumerated typed and untyped ASTs in 4 contexts", "5/C12",
         "TLA+ Validation.tla defect predicates vs. library validate()/parsers/constructors (Trace_Ast)"),
 "C13": ("interp-pipeline", "model_checking", "every library satisfaction and every single-element mutation of it, under every lock/sequence environment, is run through the real interpreter with real signature checks and re-executed by the TLA+ VM under consensus rules: accept => VM accepts, constraint bag = VM executed-path log, constraints satisfy the lifted policy; completeness on sane descriptors", "5/C13",
         "TLA+ Script VM as reference executor vs. real Interpreter on mutated witnesses (Trace_Interp)"),
 "C14": ("psbt-pipeline", "model_checking", "Psbt.tla (state machine of update/add/finalize/finalize-input/extract on a multi-input PSBT) is model-checked exhaustively for its C14 invariants, and TLC-generated operation histories (all permutations of preparation subsets, repeated/failing finalisations) are replayed into real PSBTs with real signatures; the projected state after every step is trace-validated against the model's actions: validity of final witnesses (TLA+ VM), stability, failure atomicity, idempotence, order independence (memo), extract consistency, update consistency", "5/C14",
         "TLA+ state machine Psbt.tla model-checked (MC_Psbt) + trace validation of real PSBT histories (Trace_Psbt, chain shape)"),
 "C15": ("tap-pipeline", "model_checking", "for all tree shapes up to the leaf bound (+ repeated-script variants, degenerate chains up to depth 129) the real library's merkle root, output key, control blocks, leaf order and depths are compared with the BIP341 commitment algebra of Taproot.tla (canonical unordered-pair terms), through parse / print / translate / combine / spend-info iteration", "5/C15",
         "TLA+ BIP341 term algebra (Taproot.tla) vs. real TrSpendInfo / TapTree, hashes named by alpha (Trace_Tap)"),
 "C16": ("desc-pipeline", "exploration", "the commuting diagram of standard encodings (scriptPubKey template and commitments, explicit script = MsSpec!Encode over independently derived keys, address per network, script code, unsigned scriptSig, derivation index search, multipath split, sortedmulti order independence) over an exhaustively enumerated structure space (output shapes x key forms x key orders x networks x indices); byte-level facts are alpha's (rust-bitcoin), the diagram and enumeration are TLA+", "5/C16",
         "TLA+ enumeration (Gen_Desc) + diagram of required facts and MsSpec!Encode comparison (Trace_Desc); alpha facts from rust-bitcoin / bip32"),
 "C17": ("plan-pipeline", "model_checking", "plans from real Assets vs. the equivalent satisfier (existence equivalence, byte-identical completion) and necessity/sufficiency of reported locks by re-completing the plan in transactions with exact / weaker locks and validating each in the TLA+ VM; bounded-exhaustive over ASTs x wrappers x worlds x 2 modes", "5/C17",
         "TLA+ VerifyInput on plan completions under exact and weakened lock environments (Trace_Plan)"),
 "C18": ("policy-pipeline", "model_checking", "normalized/sorted/at_age/at_lock_time/entails/minimum_n_keys/n_keys/Concrete::lift/check_timelocks of the real library on an exhaustively enumerated policy domain, each answer judged by TLC against atom truth tables (all assignments) of PolicyAtoms.tla; entails on all ordered pairs of the small set", "5/C18",
         "TLA+ truth-table semantics (PolicyAtoms.tla) vs. library policy transformations (Trace_Policy)"),
 "C19": ("pairs-pipeline", "model_checking", "full ordered pair matrix of ==, cmp, hash and to_string over every well-typed miniscript up to the node bound plus near-miss families, in explicit and sugared text, 4 contexts; every cell judged against abstract AST identity; ordering checked to be a strict total order (distinct scores); the same full matrix over 54 concrete policies (incl. odds), 39 semantic policies and 117 descriptors (wrappers, key-only forms, taproot trees differing in shape/order/internal key) (Gen_Pairs2)", "5/C19",
         "structural identity of abstract ASTs (TLA+ Gen_Pairs) vs. library Eq/Ord/Hash matrix (Trace_Eq); Gen_Pairs2 item lists for policies and descriptors"),
}
ENG = {
 "compile-pipeline": ("bin/check (run_compile)", "TLC Gen_Compile -> msverif compile -> TLC Trace_Compile"),
 "crash-pipeline": ("bin/check (run_crash)", "TLC MC_Expr + Gen_Crash -> msverif crash -> TLC Trace_Crash; plus the interp and tap pipelines (thorough: policy, desc, psbt, plan, compile) for their C11 verdicts"),
 "desc-pipeline": ("bin/check (run_desc)", "TLC Gen_Desc -> msverif desc -> TLC Trace_Desc"),
 "translate-pipeline": ("bin/check (run_translate)", "TLC Gen_Ast -> msverif translate -> TLC Trace_Translate; TLC Gen_Compile -> msverif poltext -> TLC Trace_PolText"),
 "tap-pipeline": ("bin/check (run_tap)", "TLC Gen_Tap -> msverif tap -> TLC Trace_Tap"),
 "psbt-pipeline": ("bin/check (run_psbt)", "TLC MC_Psbt + TLC Gen_Psbt -> msverif psbt (real PSBT replay) -> TLC Trace_Psbt"),
 "policy-pipeline": ("bin/check (run_policy)", "TLC Gen_Policy -> msverif policy -> TLC Trace_Policy"),
 "nonmall-pipeline": ("bin/check (run_nonmall)", "TLC Gen_Sat -> msverif sat -> TLC Trace_NonMall"),
 "plan-pipeline": ("bin/check (run_plan)", "TLC Gen_Sat -> msverif plan (Assets, plan/plan_mall, lock variants) -> TLC Trace_Plan"),
 "interp-pipeline": ("bin/check (run_interp)", "TLC Gen_Sat -> msverif interp (library satisfactions + rendered mutations) -> TLC Trace_Interp"),
 "typesound-pipeline": ("bin/check (run_typesound)", "TLC Gen_Ast -> msverif ast -> TLC Trace_TypeSound + MC_TypeSound"),
 "pairs-pipeline": ("bin/pipe_generic.py", "TLC Gen_Pairs / Gen_Pairs2 -> msverif pairs -> TLC Trace_Eq"),
 "sat-pipeline": ("bin/pipe_sat.py", "TLC Gen_Sat -> msverif sat (real library + alpha) -> TLC Trace_Sat + MC_SatSet; TLC Gen_TrSat -> msverif trsat -> TLC Trace_TrSat"),
 "ast-pipeline": ("bin/pipe_ast.py", "TLC Gen_Ast -> msverif ast -> TLC Trace_Ast; for C10 also TLC MC_Checksum + Gen_Cksum -> msverif cksum -> TLC Trace_Cksum and Gen_Compile -> msverif poltext -> TLC Trace_PolText"),
 "types-pipeline": ("bin/pipe_types.py", "TLC Gen_Types -> msverif types -> TLC Trace_Types (+ MC_Reach)"),
}
NA = {}
m = {"version": 1,
     "setup_cmd": "cd /verif/harness && ( [ -f Cargo.lock ] || cp /repo/Cargo.lock . ) && CARGO_NET_OFFLINE=true cargo build --release --offline",
     "hooks": {"guard": "miniscript_verif", "enable": "RUSTFLAGS --cfg miniscript_verif (set in /verif/harness/.cargo/config.toml); no hook is required by the current checks",
               "baseline_off_cmd": "cd /repo && cargo test --workspace --no-fail-fast --offline", "source_commits": [], "add_only": True},
     "engines": [{"name": k, "path": v[0], "serves_properties": sorted(p for p in C if C[p][0] == k), "kind_free_text": v[1]} for k, v in ENG.items()],
     "checks": [], "notes": "See DESIGN.md. All verdicts are produced by TLC evaluating L1 operators on observations of the real library.",
     "not_applicable": []}
for p in sorted(C):
    eng, cat, text, ref, tech = C[p]
    m["checks"].append({"property_id": p, "quick_cmd": "bin/check %s quick" % p, "thorough_cmd": "bin/check %s thorough" % p,
                        "evidence_file": "/verif/evidence/%s.json" % p, "replay_cmd_template": "bin/check %s --replay {path}" % p,
                        "engine": eng, "level_claimed": {"category": cat, "text": text, "design_ref": ref}, "level_note": TB, "technique": tech})
for p in props:
    if p["id"] not in C:
        m["not_applicable"].append({"property_id": p["id"], "reason": NA.get(p["id"], "check not built yet (framework under construction; DESIGN.md section 5 describes the plan)")})
json.dump(m, open(os.path.join(V, "MANIFEST.json"), "w"), indent=1)
print("claimed:", sorted(C))
