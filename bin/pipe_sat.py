"""The satisfaction pipeline: TLC Gen_Sat -> harness `sat` -> TLC Trace_Sat (+ MC_SatSet lemma)."""
import json, os, time, concurrent.futures as cf
from vlib import *

UNIVERSE = {
    "quick": dict(KeyIds="{1, 2}", HashLeaves='{<<"sha256", 1>>}', Afters="{100}", Olders="{10}",
                  MultiKs="{<<1, <<1, 2>>>>, <<2, <<1, 2>>>>, <<1, <<3, 4>>>>}", MaxThreshN=2,
                  MaxNodes={"segwitv0": 4, "tap": 4, "legacy": 4, "bare": 3}),
    "thorough": dict(KeyIds="{1, 2, 3}", HashLeaves='{<<"sha256", 1>>, <<"hash160", 1>>}',
                     Afters="{100, 500000100}", Olders="{10, 4194314}",
                     MultiKs="{<<1, <<1, 2>>>>, <<2, <<1, 2>>>>, <<2, <<1, 2, 3>>>>, <<1, <<3, 4>>>>}", MaxThreshN=3,
                     # 4 nodes in the larger universe (3 keys, 2 hashes, both lock units, 4 multisigs) is already
                     # ~8x the quick case count per context; 5 nodes does not finish within the TLC timeouts
                     MaxNodes={"segwitv0": 4, "tap": 4, "legacy": 4, "bare": 4}),
}
CTXS = ["segwitv0", "tap", "legacy", "bare"]


# composite (larger than the node bound) sampling of Gen_Sat: keep every stride-th composite
# (pool stride, keep): the cost of the composite families is quadratic in pool size = universe / stride;
# the thorough universe is about 3x the quick one, so the same strides already give 9x the composites
COMP_STRIDE = {"quick": {"sat": (5, 20), "other": (9, 30)}, "thorough": {"sat": (7, 12), "other": (9, 10)}}


NC_KEEP = {"quick": {"sat": 4, "other": 8}, "thorough": {"sat": 1, "other": 2}}


def mc_extdata(wd, u, ctx, stats):
    """L2: the static figures and descriptor weights (ExtData.tla) against the satisfier model and Encode"""
    name = "MC_ExtData_%s" % ctx
    cfg = gen_cfg(u, ctx, maxnodes=4) + ["INIT Init", "NEXT Next", "INVARIANT Inv", "POSTCONDITION Post", "CHECK_DEADLOCK FALSE"]
    write_module(wd, name, "MC_ExtData", gen_defs(u), cfg)
    r = tlc(wd, name, name + ".cfg", workers=10, heap="12g", timeout=3300)
    if not r.ok or r.tagged("VERDICT") or not r.tagged("MC_DONE"):
        log(r.out[-4000:])
        raise ToolError("MC_ExtData lemma failed (%s): the L2 figures do not bound the satisfier model" % ctx)
    stats["states"] += r.distinct
    stats["transitions"] += r.generated
    stats.setdefault("mc_extdata", {})[ctx] = {"fragments": r.tagged("MC_DONE")[0][1], "secs": round(r.secs, 1)}
    log("MC_ExtData %s: %d fragments (%.1fs)" % (ctx, r.tagged("MC_DONE")[0][1], r.secs))


def gen_cfg_sat(u, ctx, maxnodes, stride, seed, nc=0):
    return gen_cfg(u, ctx, maxnodes, comp=stride, seed=seed, nc=nc)


def gen_cfg(u, ctx, maxnodes=None, comp=(0, 1), seed=1, nc=0):
    return ["CONSTANTS", "  NCKeep = %d" % nc, "  CompStride = %d" % comp[0], "  CompKeep = %d" % comp[1], "  CompSeed = %d" % seed, '  Ctx = "%s"' % ctx, "  KeyIds = %s" % u["KeyIds"], "  HashLeaves <- c_HashLeaves",
            "  Afters = %s" % u["Afters"], "  Olders = %s" % u["Olders"], "  MultiKs <- c_MultiKs",
            "  MaxNodes = %d" % (maxnodes or u["MaxNodes"][ctx]), "  MaxThreshN = %d" % u["MaxThreshN"]]


def gen_defs(u):
    return ["c_HashLeaves == %s" % u["HashLeaves"], "c_MultiKs == %s" % u["MultiKs"]]


def generate(wd, tier, ctxs, seed=1):
    u = UNIVERSE[tier]
    outs = {}

    def one(ctx):
        name = "Gen_Sat_%s" % ctx
        out = os.path.join(wd, "cases_%s.ndjson" % ctx)
        r = gen_cached(wd, name, "Gen_Sat", gen_defs(u), gen_cfg_sat(u, ctx, u["MaxNodes"][ctx], COMP_STRIDE[tier]["sat"], seed, nc=NC_KEEP[tier]["sat"]), out, heap="6g")
        g = r.tagged("GEN")
        if not g or not os.path.exists(out):
            log(r.out[-3000:])
            raise ToolError("Gen_Sat failed for %s" % ctx)
        return ctx, out, g[0][2], r

    with cf.ThreadPoolExecutor(max_workers=4) as ex:
        for ctx, out, n, r in ex.map(one, ctxs):
            outs[ctx] = (out, n, r)
            log("Gen_Sat %s: %d cases (%.1fs)" % (ctx, n, r.secs))
    return outs


def run(tier, seed, ctxs=CTXS, wd=None, with_mc=True):
    """returns dict(verdicts=[...], stats={...})"""
    wd = wd or workdir("sat_" + tier)
    build_harness()
    t0 = time.time()
    gens = generate(wd, tier, ctxs, seed)
    stats = {"cases": 0, "events": 0, "results": 0, "ok_results": 0, "none_results": 0, "states": 0,
             "transitions": 0, "per_ctx": {}, "samples": []}
    verdicts = []
    events = {}
    for ctx in ctxs:
        cases, n, _ = gens[ctx]
        obs = os.path.join(wd, "obs_%s.ndjson" % ctx)
        run_harness("sat", cases, obs, env_extra={"VERIF_SEED": str(seed)})
        nev = nres = nok = nnone = 0
        with open(obs) as f:
            for k, ln in enumerate(f):
                e = json.loads(ln)
                nev += 1
                rs = e["res"]
                nres += len(rs)
                nok += sum(1 for r in rs if r["r"] == "ok")
                nnone += sum(1 for r in rs if r["r"] == "none")
                events[e["id"] + "@" + ctx] = (ctx, k)
                if k in (0, 7) and rs:
                    r0 = next((r for r in rs if r["r"] == "ok"), rs[0])
                    stats["samples"].append({"ctx": ctx, "wrap": e["wrap"], "ms": e["abs"], "world": r0["w"],
                                             "mode": r0["mode"], "route": r0["route"], "result": r0["r"],
                                             "stack": r0.get("inp", {}).get("stack")})
        r = tlc(wd, "Trace_Sat", "Trace_Sat.cfg", env={"TRACE": obs}, workers=10, heap="12g", timeout=3300)
        done = r.tagged("TRACE_DONE")
        if not r.ok or not done or done[0][1] != nev:
            log(r.out[-4000:])
            raise ToolError("Trace_Sat did not complete for %s" % ctx)
        # all records must have been visited: distinct states = 1 root + buckets + records
        if done[0][2] < nev + 1:
            raise ToolError("Trace_Sat visited fewer states than records (%s)" % ctx)
        for v in r.tagged("VERDICT"):
            verdicts.append({"prop": v[1], "clause": v[2], "event": v[3], "j": v[4], "detail": v[5], "ctx": ctx,
                             "obs": obs})
        stats["cases"] += n
        stats["events"] += nev
        stats["results"] += nres
        stats["ok_results"] += nok
        stats["none_results"] += nnone
        stats["states"] += r.distinct
        stats["transitions"] += r.generated
        stats["per_ctx"][ctx] = {"cases": n, "events": nev, "results": nres, "ok": nok, "trace_s": round(r.secs, 1)}
        log("Trace_Sat %s: %d events, %d results, %d verdict lines (%.1fs)" % (ctx, nev, nres, len(r.tagged("VERDICT")), r.secs))
    if with_mc:
        u = UNIVERSE[tier]
        for ctx in (["segwitv0", "tap"] if tier == "quick" else ["segwitv0", "tap", "legacy"]):
            name = "MC_SatSet_%s" % ctx
            mn = 4 if tier == "quick" else 4
            cfg = gen_cfg(u, ctx, maxnodes=mn) + ["  BruteLen = 3", "  BruteNodes = %d" % (2 if tier == "quick" else 3),
                                                  "INIT Init", "NEXT Next", "INVARIANT Inv", "CHECK_DEADLOCK FALSE"]
            write_module(wd, name, "MC_SatSet", gen_defs(u), cfg)
            r = tlc(wd, name, name + ".cfg", workers=10, heap="12g", timeout=3300)
            if not r.ok:
                log(r.out[-4000:])
                raise ToolError("MC_SatSet lemma failed (%s): L1 is internally inconsistent" % ctx)
            stats["states"] += r.distinct
            stats["transitions"] += r.generated
            stats.setdefault("mc", {})[ctx] = {"distinct": r.distinct, "secs": round(r.secs, 1)}
            log("MC_SatSet %s: %d states (%.1fs)" % (ctx, r.distinct, r.secs))
            # L2: the satisfier algorithm (Satisfier.tla) against L1, without the library
            name = "MC_Satisfier_%s" % ctx
            cfg = gen_cfg(u, ctx, maxnodes=(3 if tier == "quick" else 4)) + ["INIT Init", "NEXT Next", "INVARIANT Inv", "POSTCONDITION Post", "CHECK_DEADLOCK FALSE"]
            write_module(wd, name, "MC_Satisfier", gen_defs(u), cfg)
            r = tlc(wd, name, name + ".cfg", workers=10, heap="12g", timeout=3300)
            if not r.ok or r.tagged("VERDICT") or not r.tagged("MC_DONE"):
                log(r.out[-4000:])
                raise ToolError("MC_Satisfier lemma failed (%s): the L2 satisfier model violates L1" % ctx)
            stats["states"] += r.distinct
            stats["transitions"] += r.generated
            stats.setdefault("mc_satisfier", {})[ctx] = {"fragments": r.tagged("MC_DONE")[0][1], "secs": round(r.secs, 1)}
            log("MC_Satisfier %s: %d fragments (%.1fs)" % (ctx, r.tagged("MC_DONE")[0][1], r.secs))
            mc_extdata(wd, u, ctx, stats)
    if with_mc:
        for ctx in (["legacy", "bare"] if tier == "quick" else ["bare"]):
            mc_extdata(wd, UNIVERSE[tier], ctx, stats)
    stats["wall"] = time.time() - t0
    return {"verdicts": verdicts, "stats": stats, "wd": wd}


_INDEX = {}
_CACHE = {}


def load_event(obs, event_id):
    """random access to an event of an obs file by id (offset index built once per file)"""
    if obs not in _INDEX:
        idx = {}
        with open(obs, "rb") as f:
            off = 0
            for ln in f:
                m = ln
                k = m.find(b'"id":"')
                if k >= 0:
                    j = m.find(b'"', k + 6)
                    idx[m[k + 6:j].decode()] = off
                off += len(ln)
        _INDEX[obs] = idx
    key = (obs, event_id)
    if key in _CACHE:
        return _CACHE[key]
    off = _INDEX[obs].get(event_id)
    if off is None:
        return None
    with open(obs, "rb") as f:
        f.seek(off)
        e = json.loads(f.readline())
    if len(_CACHE) > 2000:
        _CACHE.clear()
    _CACHE[key] = e
    return e
