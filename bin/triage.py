#!/usr/bin/env python3
import json,sys,collections
vs=json.load(open(sys.argv[1]))
c=collections.Counter(); ex={}; asts=collections.defaultdict(set)
for v in vs:
    k=(v['prop'],v['clause'],v['ctx'],v['wrap'],v['route'],v['mode'])
    c[k]+=1; ex.setdefault(k,v); asts[k].add(v['abs'])
for k,n in sorted(c.items(), key=lambda x: str(x[0])):
    if k[0]=='INFO' and len(sys.argv)<3: continue
    e=ex[k]
    print(n,len(asts[k]),k,'| e.g.',e['abs'],e['detail'], json.dumps(e['world']['sigs']) if e.get('world') else '')
