"""The per-AST pipeline: TLC Gen_Ast -> harness `ast` -> TLC Trace_Ast."""
import json, os, time, concurrent.futures as cf
from vlib import *
import pipe_sat

MAXALL = {"quick": {"segwitv0": 3, "tap": 3, "legacy": 3, "bare": 3},
          "thorough": {"segwitv0": 3, "tap": 3, "legacy": 3, "bare": 3}}
MAXN = {"quick": {"segwitv0": 4, "tap": 4, "legacy": 4, "bare": 4},
        "thorough": {"segwitv0": 4, "tap": 4, "legacy": 4, "bare": 4}}
CTXS = ["segwitv0", "tap", "legacy", "bare"]


def run(tier, seed, ctxs=CTXS, wd=None):
    wd = wd or workdir("ast_" + tier)
    build_harness()
    t0 = time.time()
    u = pipe_sat.UNIVERSE[tier]

    def gen(ctx):
        name = "Gen_Ast_%s" % ctx
        cfg = pipe_sat.gen_cfg(u, ctx, maxnodes=MAXN[tier][ctx], comp=pipe_sat.COMP_STRIDE[tier]["other"], seed=seed, nc=pipe_sat.NC_KEEP[tier]["other"]) + \
            ["  MaxAllNodes = %d" % MAXALL[tier][ctx], "  WrapStride = %d" % (1 if tier == "quick" else 2)]
        out = os.path.join(wd, "cases_%s.ndjson" % ctx)
        r = gen_cached(wd, name, "Gen_Ast", pipe_sat.gen_defs(u), cfg, out)
        g = r.tagged("GEN")
        if not g or not os.path.exists(out):
            log(r.out[-3000:])
            raise ToolError("Gen_Ast failed for %s" % ctx)
        return ctx, out, g[0], r

    gens = {}
    with cf.ThreadPoolExecutor(max_workers=4) as ex:
        for ctx, out, g, r in ex.map(gen, ctxs):
            gens[ctx] = (out, g)
            log("Gen_Ast %s: %d cases (%d typed, %d untyped) (%.1fs)" % (ctx, g[2], g[3], g[4], r.secs))
    stats = {"cases": 0, "typed": 0, "untyped": 0, "events": 0, "have": 0, "states": 0, "transitions": 0,
             "per_ctx": {}, "samples": [], "decoded": 0, "lifted": 0}
    verdicts = []
    for ctx in ctxs:
        cases, g = gens[ctx]
        obs = os.path.join(wd, "obs_%s.ndjson" % ctx)
        run_harness("ast", cases, obs, env_extra={"VERIF_SEED": str(seed)})
        nev = have = dec = lifted = 0
        with open(obs) as f:
            for k, ln in enumerate(f):
                e = json.loads(ln)
                nev += 1
                if e.get("have"):
                    have += 1
                    dec += 1 if e["dec"].get("ok") else 0
                    lifted += 1 if e["lift"].get("ok") else 0
                if k in (3, 40, 400):
                    stats["samples"].append({"ctx": ctx, "ms": e["abs"], "parse": e["parse"], "ty": e.get("ty"),
                                             "script": e.get("script"), "lift": e.get("lift", {}).get("pol")})
        r = tlc(wd, "Trace_Ast", "Trace_Ast.cfg", env={"TRACE": obs}, workers=10, heap="12g", timeout=3300)
        done = r.tagged("TRACE_DONE")
        if not r.ok or not done or done[0][1] != nev or done[0][2] < nev + 1:
            log(r.out[-4000:])
            raise ToolError("Trace_Ast did not complete for %s" % ctx)
        vs = r.tagged("VERDICT")
        for v in vs:
            verdicts.append({"prop": v[1], "clause": v[2], "event": v[3], "j": v[4], "detail": v[5], "ctx": ctx, "obs": obs})
        stats["cases"] += g[2]; stats["typed"] += g[3]; stats["untyped"] += g[4]
        stats["events"] += nev; stats["have"] += have; stats["decoded"] += dec; stats["lifted"] += lifted
        stats["states"] += r.distinct; stats["transitions"] += r.generated
        stats["per_ctx"][ctx] = {"cases": g[2], "typed": g[3], "untyped": g[4], "accepted_by_lib": have, "trace_s": round(r.secs, 1)}
        log("Trace_Ast %s: %d events, %d verdict lines (%.1fs)" % (ctx, nev, len(vs), r.secs))
    # L2 lemma: the decoder automaton (Decoder.tla) against Encode, without the library: own encodings
    # decode to themselves, accepted instruction-level mutants are canonical
    for ctx in [c for c in ctxs if c in ("segwitv0", "tap", "legacy")]:
        name = "MC_Decoder_%s" % ctx
        cfg = pipe_sat.gen_cfg(u, ctx, maxnodes=(3 if tier == "quick" and ctx == "legacy" else 4)) + \
            ["INIT Init", "NEXT Next", "INVARIANT Inv", "POSTCONDITION Post", "CHECK_DEADLOCK FALSE"]
        write_module(wd, name, "MC_Decoder", pipe_sat.gen_defs(u), cfg)
        r = tlc(wd, name, name + ".cfg", workers=10, heap="12g", timeout=3300)
        if not r.ok or r.tagged("VERDICT") or not r.tagged("MC_DONE"):
            log(r.out[-4000:])
            raise ToolError("MC_Decoder lemma failed (%s): the L2 decoder model is not the inverse of Encode" % ctx)
        stats["states"] += r.distinct
        stats["transitions"] += r.generated
        stats.setdefault("mc_decoder", {})[ctx] = {"fragments": r.tagged("MC_DONE")[0][1], "secs": round(r.secs, 1)}
        log("MC_Decoder %s: %d fragments (%.1fs)" % (ctx, r.tagged("MC_DONE")[0][1], r.secs))
    stats["wall"] = time.time() - t0
    return {"verdicts": verdicts, "stats": stats, "wd": wd}
