#!/bin/bash
# confirm a seeded change inside its worktree: suite green with change, demo fails with / passes without
p=$1; wt=/tmp/wt_$p; out=/tmp/confirm_$p.txt
cd $wt || exit 1
{
echo "== diff stat"; git diff --stat -- src
echo "== suite with change (demo moved aside)"
mkdir -p /tmp/demo_$p; mv tests/seed_demo.rs /tmp/demo_$p/ 2>/dev/null
cargo test --workspace --offline 2>&1 | grep "test result" | awk '{f+=$6; p+=$4} END {print "passed="p" failed="f}'
mv /tmp/demo_$p/seed_demo.rs tests/
echo "== demo with change"
cargo test --offline $FEAT --test seed_demo 2>&1 | grep "test result"
git diff -- src > /tmp/demo_$p/p.diff
git apply -R /tmp/demo_$p/p.diff
echo "== demo without change"
cargo test --offline $FEAT --test seed_demo 2>&1 | grep "test result"
git apply /tmp/demo_$p/p.diff
echo "== done"
} > $out 2>&1
