"""Generic per-context pipeline: TLC <Gen> -> harness <cmd> -> TLC <Trace>."""
import json, os, time, concurrent.futures as cf
from vlib import *
import pipe_sat

CTXS = ["segwitv0", "tap", "legacy", "bare"]


PART_BYTES = int(os.environ.get("VERIF_PART_BYTES", 600 * 1000 * 1000))   # a trace file is deserialised whole by TLC: larger ones are validated in parts


class Merged:
    """results of several TLC runs over consecutive parts of one observation file"""
    def __init__(self, rs):
        self.rs = rs
        self.distinct = sum(r.distinct for r in rs)
        self.generated = sum(r.generated for r in rs)
        self.secs = sum(r.secs for r in rs)

    def tagged(self, t):
        return [x for r in self.rs for x in r.tagged(t)]


def trace_in_parts(wd, trace, obs, nev, ctx, trace_env, trace_workers):
    """validate the observations (events are judged one by one, independently) - in one TLC run, or,
    when the file is too large to deserialise into one heap, in consecutive parts"""
    parts = []
    if os.path.getsize(obs) <= PART_BYTES:
        parts.append((obs, nev))
    else:
        q, size, n, fo = 0, 0, 0, None
        with open(obs) as f:
            for ln in f:
                if fo is None or size + len(ln) > PART_BYTES:
                    if fo:
                        fo.close()
                        parts.append((fo.name, n))
                    fo, size, n, q = open("%s.tpart%d" % (obs, q), "w"), 0, 0, q + 1
                fo.write(ln)
                size += len(ln)
                n += 1
        if fo:
            fo.close()
            parts.append((fo.name, n))
    rs = []
    for path, n in parts:
        r = tlc(wd, trace, trace + ".cfg", env=dict({"TRACE": path}, **(trace_env or {})), workers=trace_workers, heap="12g", timeout=3300)
        done = r.tagged("TRACE_DONE")
        if not r.ok or not done or done[0][1] != n or done[0][2] < n + 1:
            log(r.out[-4000:])
            raise ToolError("%s did not complete for %s" % (trace, ctx))
        rs.append(r)
        if path != obs:
            os.remove(path)
    return Merged(rs)


def run(name, gen, cmd, trace, tier, seed, ctxs=CTXS, maxnodes=None, extra_cfg=None, extra_defs=None,
        count_event=None, sample_event=None, gen_heap="8g", trace_workers=10, universe=None, trace_env=None, post=None):
    """count_event(e, stats) updates counters; sample_event(e) -> sample or None"""
    wd = workdir(name + "_" + tier)
    build_harness()
    t0 = time.time()
    u = universe or pipe_sat.UNIVERSE[tier]

    def genf(ctx):
        mname = "%s_%s" % (gen, ctx)
        mn = (maxnodes or {}).get(ctx) or u["MaxNodes"][ctx]
        base = pipe_sat.gen_cfg_sat(u, ctx, mn, pipe_sat.COMP_STRIDE[tier]["other"], seed, nc=pipe_sat.NC_KEEP[tier]["other"]) if gen == "Gen_Sat" else pipe_sat.gen_cfg(u, ctx, maxnodes=mn, seed=seed)
        cfg = base + list((extra_cfg or {}).get(ctx, (extra_cfg or {}).get("*", [])))
        out = os.path.join(wd, "cases_%s.ndjson" % ctx)
        r = gen_cached(wd, mname, gen, pipe_sat.gen_defs(u) + list(extra_defs or []), cfg, out, heap=gen_heap)
        g = r.tagged("GEN")
        if not g or not os.path.exists(out):
            log(r.out[-3000:])
            raise ToolError("%s failed for %s" % (gen, ctx))
        return ctx, out, g[0], r

    gens = {}
    with cf.ThreadPoolExecutor(max_workers=4) as ex:
        for ctx, out, g, r in ex.map(genf, ctxs):
            gens[ctx] = (out, g)
            log("%s %s: %s (%.1fs)" % (gen, ctx, g[1:], r.secs))
    stats = {"events": 0, "states": 0, "transitions": 0, "per_ctx": {}, "samples": [], "nontrivial": 0, "evaluations": 0}
    verdicts = []
    for ctx in ctxs:
        cases, g = gens[ctx]
        obs = os.path.join(wd, "obs_%s.ndjson" % ctx)
        run_harness(cmd, cases, obs, env_extra={"VERIF_SEED": str(seed), "VERIF_TIER": tier})
        nev = 0
        with open(obs) as f:
            for k, ln in enumerate(f):
                e = json.loads(ln)
                nev += 1
                if count_event:
                    count_event(e, stats)
                if sample_event and len(stats["samples"]) < 8 and k % 97 == 3:
                    s = sample_event(e)
                    if s is not None:
                        stats["samples"].append(s)
        r = trace_in_parts(wd, trace, obs, nev, ctx, trace_env, trace_workers)
        stats.setdefault("tagged", {})[ctx] = {t: r.tagged(t) for t in ("RUNS", "ADV")}
        vs = r.tagged("VERDICT")
        for v in vs:
            verdicts.append({"prop": v[1], "clause": v[2], "event": v[3], "j": v[4], "detail": v[5], "ctx": ctx, "obs": obs})
        stats["events"] += nev
        stats["states"] += r.distinct
        stats["transitions"] += r.generated
        stats["per_ctx"][ctx] = {"gen": g[1:], "events": nev, "trace_s": round(r.secs, 1)}
        log("%s %s: %d events, %d verdict lines (%.1fs)" % (trace, ctx, nev, len(vs), r.secs))
    if post:
        post(wd, u, stats)
    stats.pop("tagged", None)
    stats["wall"] = time.time() - t0
    return {"verdicts": verdicts, "stats": stats, "wd": wd}


def run_single(name, gen, gen_cfg_lines, cmd, trace, tier, seed, count_event=None, sample_event=None, trace_env=None,
               gen_defs=(), trace_workers=12, sample_mod=97, pre=None):
    """context-free pipeline: one Gen run, one harness run, one Trace run"""
    wd = workdir(name + "_" + tier)
    build_harness()
    t0 = time.time()
    mname = gen + "_run"
    cases = os.path.join(wd, "cases.ndjson")
    r = gen_cached(wd, mname, gen, list(gen_defs), list(gen_cfg_lines), cases)
    g = r.tagged("GEN")
    if not g or not os.path.exists(cases):
        log(r.out[-3000:])
        raise ToolError("%s failed" % gen)
    log("%s: %s (%.1fs)" % (gen, g[0][1:], r.secs))
    stats = {"events": 0, "states": 0, "transitions": 0, "samples": [], "nontrivial": 0, "evaluations": 0, "gen": g[0][1:]}
    obs = os.path.join(wd, "obs.ndjson")
    run_harness(cmd, cases, obs, env_extra={"VERIF_SEED": str(seed), "VERIF_TIER": tier})
    nev = 0
    with open(obs) as f:
        for k, ln in enumerate(f):
            e = json.loads(ln)
            nev += 1
            if count_event:
                count_event(e, stats)
            if sample_event and len(stats["samples"]) < 8 and k % sample_mod == 3:
                s = sample_event(e)
                if s is not None:
                    stats["samples"].append(s)
    r = tlc(wd, trace, trace + ".cfg", env=dict({"TRACE": obs}, **(trace_env or {})), workers=trace_workers, heap="12g", timeout=3300)
    done = r.tagged("TRACE_DONE")
    if not r.ok or not done or done[0][1] != nev or done[0][2] < nev:
        log(r.out[-4000:])
        raise ToolError("%s did not complete" % trace)
    verdicts = [{"prop": v[1], "clause": v[2], "event": v[3], "j": v[4], "detail": v[5], "ctx": name, "obs": obs} for v in r.tagged("VERDICT")]
    stats["events"] = nev
    if pre:
        pre(wd, stats)
    stats["states"] = stats.get("states", 0) + r.distinct
    stats["transitions"] = stats.get("transitions", 0) + r.generated
    stats["wall"] = time.time() - t0
    log("%s: %d events, %d verdict lines (%.1fs)" % (trace, nev, len(verdicts), r.secs))
    return {"verdicts": verdicts, "stats": stats, "wd": wd}
